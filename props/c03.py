"""C03 - GMM ML training never decreases the likelihood and stops by its stated rule.

Case = data set x initial state x switch set x floor x input kind. Inside: the trajectory M_0..M_K (fit with
max_fitting_steps=k, no threshold; cross-checked by chained one-step fits), each step compared with the M-step
*definition* applied to M_{k-1} and tested for monotone mean log-likelihood when no floor is active; then every
cap x threshold against the reference stopping rule evaluated on the trajectory.
"""
import numpy as np

from mc import oracle_gmm as og
from mc.util import Ctx, affine, sync_dask

PROPERTY = "C03"
RULE = (
    "complete product: data sets x initial (means, variances, weights) x all 8 update-switch sets x floors x input kind "
    "(numpy, dask 2 uneven chunks, dask single-row chunks in thorough); per case trajectory k = 0..K with per-step "
    "comparison against the ML M-step definition and the monotonicity test, chained one-step fits, and all caps "
    "(1,2,3,5,None) x thresholds (None,0,1e-3,0.1,1,1e9) against the reference stopping rule. Non-trivial: some "
    "parameter moves by > 1e-6 after the first iteration and no floor is active on the whole trajectory; distinct = distinct case"
)
ASSUMPTIONS = [
    "steps in which a variance floor or the count floor is active are compared with the definition but excluded from the monotonicity assertion (counted)",
    "thresholds within 1e-9 of the relative change are skipped (counted)",
    "values limited to the listed alphabets (affine re-labelling by VERIF_SEED)",
]
BUDGET = {"quick": 900, "thorough": 3 * 3600}
EPS = float(np.finfo(float).eps)

DATA = {
    "blobs1": [[0.0], [0.5], [1.0], [9.0], [10.0], [11.0]],
    "overlap1": [[0.0], [1.0], [2.0], [3.0], [4.0], [6.0], [2.5]],
    "frozen1": [[2.0], [2.5], [3.0], [3.5], [4.0]],
    "blobs2": [[0.0, 0.0], [1.0, 0.5], [0.5, 1.0], [10.0, 10.0], [11.0, 10.5], [10.5, 11.0], [5.0, 4.0]],
    "dups2": [[1.0, 2.5], [1.0, 2.5], [1.0, 2.5], [0.0, -3.0]],
    "skew2": [[0.0, 1.0], [0.25, 8.0], [0.5, -6.0], [0.75, 3.0], [4.0, 2.0], [4.5, 2.5]],
}
INITS = {
    1: [dict(mu=[[1.0]], var=[[4.5]], w=[1.0]),
        dict(mu=[[0.0], [8.0]], var=[[1.0], [4.0]], w=[0.5, 0.5]),
        dict(mu=[[2.0], [3.0]], var=[[4.0], [0.25]], w=[0.25, 0.75]),
        dict(mu=[[-3.0], [2.5], [10.0]], var=[[1.0], [1.0], [4.0]], w=[0.125, 0.5, 0.375]),
        dict(mu=[[1.0], [1.0]], var=[[1.0], [1.0]], w=[0.5, 0.5])],
    2: [dict(mu=[[2.0, 2.0]], var=[[4.0, 1.0]], w=[1.0]),
        dict(mu=[[0.0, 0.0], [1.0, 1.0]], var=[[4.0, 4.0], [4.0, 4.0]], w=[0.25, 0.75]),
        dict(mu=[[0.0, 1.0], [10.0, 2.5]], var=[[1.0, 0.25], [4.0, 16.0]], w=[0.5, 0.5]),
        dict(mu=[[-3.0, 0.0], [2.5, 2.5], [10.0, 10.0]], var=[[1.0, 1.0], [4.0, 0.25], [1.0, 4.0]], w=[0.375, 0.125, 0.5])],
}
SWITCHES = [(a, b, c_) for a in (1, 0) for b in (1, 0) for c_ in (1, 0)]
CAPS = [0, 1, 2, 3, 5, None]
THRS = [None, 0.0, 1e-3, 0.1, 1.0, 1e9]
KMAX = {"quick": 4, "thorough": 6}
KSTOP = 9


def cases(tier, seed):
    out = []
    for dname, rows in DATA.items():
        D = len(rows[0])
        n = len(rows)
        kinds = ["np", [1, n - 1], ["ser", 1, 2, n - 3]] if tier == "quick" else ["np", [1, n - 1], [n // 2, n - n // 2], [1] * n, ["ser", 1, 2, n - 3], ["ser"] + [1] * n]
        for ii, init in enumerate(INITS[D]):
            for sw in SWITCHES:
                for floor in ("default", "half"):
                    if tier == "quick" and floor == "half" and ii % 2:
                        continue
                    for kind in kinds:
                        if tier == "quick" and kind != "np" and (sw not in ((1, 1, 1), (0, 1, 0), (1, 0, 0)) or floor != "default"):
                            continue
                        out.append(dict(data=dname, init=ii, sw=list(sw), floor=floor, kind=kind, seed=seed, tier=tier))
    return out


def _mk(X, kind):
    if kind == "np":
        return X.copy()
    import dask.array as da

    return da.from_array(X.copy(), chunks=(tuple(kind), (X.shape[1],)))


def _machine(case, init, s, o, cap, thr):
    from bob.learn.em import GMMMachine

    sw = case["sw"]
    C = len(init["w"])
    B = bool
    if (sum(sw) + len(init["w"]) + (0 if cap is None else int(cap))) % 2:
        # settings as NumPy scalars (what an HDF5 round trip, np.arange or a parameter grid hands over)
        B = np.bool_
        cap = None if cap is None else np.int64(cap)
        thr = None if thr is None else np.float64(thr)
    m = GMMMachine(C, update_means=B(sw[0]), update_variances=B(sw[1]), update_weights=B(sw[2]),
                   max_fitting_steps=cap, convergence_threshold=thr, weights=np.array(init["w"], float))
    m.means = np.array(init["mu"], float) * s + o
    if case["floor"] == "half":
        m.variance_thresholds = 0.5 * s * s
    m.variances = np.array(init["var"], float) * s * s
    return m


def _params(m):
    return np.array(m.weights, float), np.array(m.means, float), np.array(m.variances, float)


def run_case(case):
    sync_dask()
    c = Ctx()
    s, o = affine(case["seed"])
    X = np.array(DATA[case["data"]], float) * s + o
    D = X.shape[1]
    init = INITS[D][case["init"]]
    sw = tuple(case["sw"])
    tier = case.get("tier", "quick")
    kmax = KMAX[tier]
    is_dask = case["kind"] != "np"
    tags = dict(sw="".join(map(str, sw)), kind=("dask-serialised" if case["kind"][0] == "ser" else "dask") if is_dask else "numpy", floor=case["floor"])
    var_floor = 0.5 * s * s if case["floor"] == "half" else EPS
    scale = float(np.abs(X).max()) + 1.0

    serialised = is_dask and case["kind"][0] == "ser"
    rows = case["kind"][1:] if serialised else case["kind"]

    def fit(cap, thr, machine=None):
        m = machine if machine is not None else _machine(case, init, s, o, cap, thr)
        if serialised:
            # every task on a pickled copy (as with dask.distributed): parameters only travel through returned values
            from mc import sched

            sched.run_with(lambda: m.fit(_mk(X, rows)), (), "serialised")
        else:
            m.fit(_mk(X, rows))
        c.transitions += 1
        return m

    kfull = KSTOP if not is_dask else max(kmax, 5)
    traj = [_params(_machine(case, init, s, o, 1, None))]
    L = [float(og.ll(X, *traj[0]).mean())]
    floor_step = [False]
    moved = False
    for k in range(1, kfull + 1):
        m = fit(k, None)
        P = _params(m)
        traj.append(P)
        L.append(float(og.ll(X, *P).mean()))
        # (a) the step equals the ML M-step definition applied to the previous model
        st = og.stats(X, *traj[k - 1])
        w2, mu2, var2, info = og.ml_mstep(st, *traj[k - 1], sw, EPS, var_floor)
        # a component that has collapsed onto a single point has a variance at the rounding-noise level of the raw
        # moments (eps * x^2): its log-variance, and with it the likelihood, is noise - same exclusion as an active floor
        noise = 1e3 * EPS * scale * scale
        active = (info["var_floor_active"] or info["count_floor_active"] or bool(np.any(np.isclose(var2, var_floor, rtol=1e-6, atol=0)))
                  or bool(np.any(var2 < noise)) or bool(np.any(P[2] < noise)) or bool(np.any(traj[k - 1][2] < noise)))
        floor_step.append(active)
        if k <= kmax:
            c.close(P[0], w2, "mstep_weights", f"weights after iteration {k}", tags)
            c.close(P[1], mu2, "mstep_means", f"means after iteration {k}", tags, scale=scale)
            c.close(P[2], var2, "mstep_variances", f"variances after iteration {k}", tags, scale=scale * scale)
            # (b) monotone mean log-likelihood
            if active:
                c.count("floor_active_steps")
            else:
                c.check(L[k] >= L[k - 1] - 1e-10 * max(1.0, abs(L[k - 1])), "monotone",
                        f"mean log-likelihood fell from {L[k-1]!r} to {L[k]!r} at iteration {k}", tags)
                lib = float(np.asarray(m.log_likelihood(X)).mean())
                c.close(lib, L[k], "loglik_consistency", "machine.log_likelihood(train).mean() vs oracle", tags)
        if k == 1 and max(float(np.abs(P[i] - traj[0][i]).max()) for i in range(3)) > 1e-6:
            moved = True
        c.states += 1
    # chained one-step fits from non-initial states reproduce the trajectory
    m = _machine(case, init, s, o, 1, None)
    for k in range(1, min(kmax, 3) + 1):
        fit(1, None, machine=m)
        for i, nm in enumerate(("weights", "means", "variances")):
            c.close(_params(m)[i], traj[k][i], "chained", f"{nm} after {k} chained one-step fits vs fit(max_fitting_steps={k})", tags,
                    rtol=1e-12, scale=scale * scale)
    # stopping rule: A_k (reported at iteration k) = mean log-likelihood of the model entering iteration k = L[k-1]
    fired = False
    for cap in CAPS:
        for thr in THRS:
            if thr is None and cap is None:
                continue
            if thr is None:
                continue  # identical to the trajectory fits above
            if is_dask and (cap, thr) not in ((3, 0.1), (5, 1e-3), (None, 0.1), (2, 1e9)):
                continue
            if cap == 0:
                # no iteration at all: the model must be the initial one, whatever the threshold
                m0 = fit(0, thr)
                for i, nm in enumerate(("weights", "means", "variances")):
                    c.close(_params(m0)[i], traj[0][i], "stop", f"cap=0 thr={thr}: {nm} must be the initial ones", tags, rtol=1e-15)
                continue
            limit = cap if cap is not None else kfull
            stop, near, undecided = limit, False, cap is None
            for k in range(2, limit + 1):
                a0, a1 = L[k - 2], L[k - 1]
                if a0 == 0:
                    near = True
                    break
                rel = abs((a0 - a1) / a0)
                if abs(rel - thr) <= 1e-9 * max(1.0, thr) + 1e-13:
                    near = True
                if rel <= thr:
                    stop, undecided = k, False
                    break
            if near:
                c.count("threshold_tie_skipped")
                continue
            if undecided:
                c.count("no_cap_not_converged_within_horizon")
                continue
            if stop < limit or cap is None:
                fired = True
            m = fit(cap, thr)
            P = _params(m)
            for i, nm in enumerate(("weights", "means", "variances")):
                c.close(P[i], traj[stop][i], "stop", f"cap={cap} thr={thr}: {nm} must be those after {stop} iterations", tags,
                        rtol=1e-12, scale=scale * scale)
            # history: fit() again on the same object continues from the current model with a fresh iteration count
            # and a fresh convergence test (nothing is carried over from the previous call)
            if cap is not None and thr in (0.1, 1e-3, 1.0) and not c.viol:
                stop2, near2 = cap, False
                for k in range(2, cap + 1):
                    if stop + k - 1 > kfull:
                        near2 = True
                        break
                    a0, a1 = L[stop + k - 2], L[stop + k - 1]
                    if a0 == 0:
                        near2 = True
                        break
                    rel = abs((a0 - a1) / a0)
                    if abs(rel - thr) <= 1e-9 * max(1.0, thr) + 1e-13:
                        near2 = True
                    if rel <= thr:
                        stop2 = k
                        break
                if not near2 and stop + stop2 <= kfull and not any(floor_step[1 : stop + stop2 + 1]):
                    fit(cap, thr, machine=m)
                    P2 = _params(m)
                    for i, nm in enumerate(("weights", "means", "variances")):
                        c.close(P2[i], traj[stop + stop2][i], "refit", f"cap={cap} thr={thr}: {nm} after a second fit of the same object must be those after {stop}+{stop2} iterations",
                                tags, rtol=1e-9, scale=scale * scale)
                    c.count("refits")
    c.traces = c.transitions
    nontrivial = moved and not any(floor_step[1 : kmax + 1])
    sig = "%s|%d|%s|%s|%s" % (case["data"], case["init"], tags["sw"], case["floor"], case["kind"])
    if fired:
        c.count("stop_rule_fired_cases")
    return c.result(nontrivial=nontrivial, sig=sig)
