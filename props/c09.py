"""C09 - each JFA training phase is exact EM: its marginal likelihood never decreases.

Case = UBM x labelled statistics (classes, sessions, label order) x ranks x initial subspaces. Inside: the three phases
are driven through the public e_step_* / m_step_* / finalize_* methods; after every E/M pair the phase's marginal
log-likelihood (latent factor integrated out, other subspaces and their point estimates fixed; computed from the model
definition in mc/oracle_fa) must not decrease; fit(em_iterations=k) must equal k manual pairs per phase (sequencing and
hand-over of the point estimates), from lists and from Dask bags; shapes and finiteness.
"""
import copy

import numpy as np

from mc import oracle_fa as ofa
from mc.util import Ctx, affine, sync_dask
from props import c11

PROPERTY = "C09"
RULE = (
    "complete product: 2 UBMs x 6 labelled statistics sets (2-3 classes, 1-3 sessions per class, sorted / interleaved / "
    "blockwise-repeated label order, fractional counts) x ranks (r_U, r_V) in {1,2}^2 x initial subspaces (seeds 0,1,2 and an "
    "explicit pattern) ; per case K E/M pairs per phase with the likelihood test after every pair, fit(k) == manual for k = 1..K "
    "(list and bag input). Non-trivial: every phase's likelihood rises by > 1e-9 in its first pair; distinct = distinct case"
)
ASSUMPTIONS = ["labels are 0..K-1 as the library requires", "likelihoods are computed in float64 from the definition; slack 1e-9 relative"]
BUDGET = {"quick": 900, "thorough": 3 * 3600}
K_IT = {"quick": 3, "thorough": 6}

LABELS = [
    [0, 0, 1, 1],
    [0, 1, 0, 1, 1],
    [0, 1, 2, 0, 1, 2],
    [0, 0, 1, 1, 0, 2, 2],
    [2, 1, 0, 1, 2, 0],
    [1, 0, 1],
]


def cases(tier, seed):
    out = []
    for u in (0, 1):
        for li in range(len(LABELS)):
            for rU in ((1, 2) if tier == "quick" else (1, 2, 3)):
                for rV in ((1, 2) if tier == "quick" else (1, 2, 3)):
                    for init in ((0, 1, 2, "pattern", "pattern_F", "zero_D", "neg_D") if tier == "quick" else (0, 1, 2, 3, 4, 5, "pattern", "pattern_F", "zero_D", "neg_D")):
                        if tier == "quick" and ((rU + rV + (init if isinstance(init, int) else len(init)) + li) % 2):
                            continue
                        out.append(dict(ubm=u, labels=li, rU=rU, rV=rV, init=init, K=K_IT[tier], seed=seed))
                        if li in (2, 4) and init in (1, "pattern"):
                            out.append(dict(ubm=u, labels=li, rU=rU, rV=rV, init=init, K=K_IT[tier], seed=seed, shared=True))
    return out


def _stats(ubm, n, s, o, frac, dup=False):
    rng = np.random.RandomState(4242)
    C, D = ubm.means.shape
    cent = np.asarray(ubm.means, float)
    out = []
    for i in range(n):
        k = 3 + i % 3
        fr = np.round((rng.normal(size=(k, D)) * 1.5) * 4) / 4 * s + cent[i % C]
        st = ubm.acc_stats(fr)
        if frac and i % 2:
            st.n, st.sum_px, st.sum_pxx = st.n * 0.5, st.sum_px * 0.5, st.sum_pxx * 0.5
        out.append(st)
    if dup == "class":
        # classes 0 and 1 with bit-identical pooled counts (sessions pairwise share their counts)
        half = len(out) // 2
        for a_ in range(half):
            b_ = a_ + half
            ratio = np.asarray(out[a_].n, float) / np.asarray(out[b_].n, float)
            out[b_].sum_px = np.asarray(out[b_].sum_px, float) * ratio[:, None]
            out[b_].sum_pxx = np.asarray(out[b_].sum_pxx, float) * ratio[:, None]
            out[b_].n = np.array(out[a_].n, float)
            out[b_].t = out[a_].t
    elif dup:
        # two pairs of sessions with bit-identical counts but different first-order statistics
        for a_, b_ in ((0, 2), (1, 3)):
            if b_ < len(out):
                ratio = np.asarray(out[a_].n, float) / np.asarray(out[b_].n, float)
                out[b_].sum_px = np.asarray(out[b_].sum_px, float) * ratio[:, None]
                out[b_].sum_pxx = np.asarray(out[b_].sum_pxx, float) * ratio[:, None]
                out[b_].n = np.array(out[a_].n, float)
                out[b_].t = out[a_].t
    return out


def _machine(case, ubm, s, iters):
    from bob.learn.em import JFAMachine

    init = case["init"]
    m = JFAMachine(r_U=case["rU"], r_V=case["rV"], ubm=ubm, em_iterations=iters, random_state=init if isinstance(init, int) else 0, relevance_factor=4.0)
    if isinstance(init, str):
        C, D = ubm.means.shape
        U0 = c11._pattern((C * D, case["rU"]), 1, s) + 0.125 * s
        V0 = c11._pattern((C * D, case["rV"]), 2, s) - 0.125 * s
        if init == "pattern_F":  # the same values held in column-major (Fortran-ordered) arrays
            U0, V0 = np.asfortranarray(U0), np.asfortranarray(V0)
        m.U, m.V = U0, V0
        if init == "zero_D":  # residual term switched off for some dimensions
            m.D = np.where(np.arange(C * D) % 2 == 0, 0.0, np.asarray(m.D, float))
        if init == "neg_D":  # D is a diagonal matrix: entries of either sign
            m.D = np.asarray(m.D, float) * np.where(np.arange(C * D) % 3 == 0, -1.0, 1.0)
    return m


def run_case(case):
    import dask.bag as db

    sync_dask()
    c = Ctx()
    s, o = affine(case["seed"])
    ubm = c11._ubm(c11.UBMS[case["ubm"]], s, o)
    C, D = ubm.means.shape
    y = np.array(LABELS[case["labels"]])
    X = _stats(ubm, len(y), s, o, frac=case["labels"] % 2 == 1, dup=("class" if case["labels"] == 0 else case["labels"] in (2, 3)))
    if case.get("shared"):
        # the very same statistics object listed under two classes (one recording attributed to two speakers)
        for a_, b_ in ((0, 1), (3, 5), (2, 4)):
            if b_ < len(y) and y[a_] != y[b_]:
                X[b_] = X[a_]
    mvec = np.asarray(ubm.means, float).ravel()
    var = np.asarray(ubm.variances, float).ravel()
    classes = sorted(set(y.tolist()))
    nspc = [int((y == k).sum()) for k in classes]
    nh = [np.repeat(np.asarray(st.n, float), D) for st in X]
    fh = [np.asarray(st.sum_px, float).ravel() for st in X]
    tags = {}
    K = case["K"]
    m = _machine(case, ubm, s, K)
    n_acc, f_acc = m.initialize(copy.deepcopy(X), y, len(classes))
    c.transitions += 1
    # accumulated per-class statistics are the sums over the class's sessions
    for k in classes:
        idx = [i for i in range(len(y)) if y[i] == k]
        c.close(np.asarray(n_acc[k], float), sum(np.asarray(X[i].n, float) for i in idx), "class_stats", f"accumulated counts of class {k}", tags, rtol=1e-12)
        c.close(np.asarray(f_acc[k], float), sum(np.asarray(X[i].sum_px, float) for i in idx), "class_stats", f"accumulated first-order statistics of class {k}", tags, rtol=1e-12,
                scale=float(np.abs(mvec).max()) + 1)
    if c.viol:
        return c.result()

    def lik_v(V):
        tot = 0.0
        for k in classes:
            idx = [i for i in range(len(y)) if y[i] == k]
            n = sum(nh[i] for i in idx)
            f = sum(fh[i] for i in idx) - n * mvec
            tot += ofa.fa_marginal(V, var, n, f)
        return tot

    def lik_u(U, V, ly):
        tot = 0.0
        for i in range(len(y)):
            f = fh[i] - nh[i] * (mvec + V @ np.asarray(ly[y[i]], float))
            tot += ofa.fa_marginal(U, var, nh[i], f)
        return tot

    def lik_d(Dv, U, V, ly, lx):
        tot = 0.0
        for k in classes:
            idx = [i for i in range(len(y)) if y[i] == k]
            n = sum(nh[i] for i in idx)
            f = np.zeros_like(mvec)
            for j, i in enumerate(idx):
                f += fh[i] - nh[i] * (mvec + V @ np.asarray(ly[k], float) + U @ np.asarray(lx[k], float)[:, j])
            tot += ofa.diag_marginal(Dv, var, n, f)
        return tot

    def em_pair_subspace(W, groups):
        """One exact E/M pair for offset = W y from the definition. groups = list of (n (CD,), f (CD,)) with f already
        centred on everything that is held fixed. Returns the re-estimated W."""
        r = W.shape[1]
        A1 = np.zeros((C, r, r))
        A2 = np.zeros((C * D, r))
        for n, f in groups:
            Lm = np.eye(r) + W.T @ (W * (n / var)[:, None])
            Li = np.linalg.inv(Lm)
            yv = Li @ (W.T @ (f / var))
            Eyy = Li + np.outer(yv, yv)
            nc = n.reshape(C, D)[:, 0]
            A1 += nc[:, None, None] * Eyy[None]
            A2 += np.outer(f, yv)
        out = np.zeros_like(W)
        for cc in range(C):
            out[cc * D : (cc + 1) * D] = A2[cc * D : (cc + 1) * D] @ np.linalg.inv(A1[cc])
        return out

    def shapes(where):
        U, V, Dv = np.asarray(m.U), np.asarray(m.V), np.asarray(m.D)
        c.check(U.shape == (C * D, case["rU"]) and V.shape == (C * D, case["rV"]) and Dv.shape == (C * D,), "shapes", f"{where}: U{U.shape} V{V.shape} D{Dv.shape}", tags)
        c.check(bool(np.all(np.isfinite(U)) and np.all(np.isfinite(V)) and np.all(np.isfinite(Dv))), "finite", f"{where}: non-finite subspace", tags)

    rose = []
    snaps = {}
    kw = dict(n_samples_per_class=nspc)
    # ---- V phase
    L = [lik_v(np.asarray(m.V, float))]
    for it in range(1, K + 1):
        Vprev = np.array(m.V, float)
        out = m.e_step_v(X=X, y=y, n_acc=n_acc, f_acc=f_acc, **kw)
        m.m_step_v([out])
        c.transitions += 2
        groups = []
        for k in classes:
            idx = [i for i in range(len(y)) if y[i] == k]
            nn = sum(nh[i] for i in idx)
            groups.append((nn, sum(fh[i] for i in idx) - nn * mvec))
        Vref = em_pair_subspace(Vprev, groups)
        c.close(np.asarray(m.V, float), Vref, "v_pair_definition", f"V after pair {it} vs the exact EM pair from the definition", tags, rtol=1e-7, scale=float(np.abs(Vref).max()) + 1e-9, kappa=1e5)
        L.append(lik_v(np.asarray(m.V, float)))
        c.check(L[-1] >= L[-2] - 1e-9 * max(1.0, abs(L[-2])), "v_phase", f"V-phase marginal likelihood fell from {L[-2]!r} to {L[-1]!r} at pair {it}", tags)
        shapes(f"V phase pair {it}")
        snaps[("V", it)] = np.array(m.V, float)
    rose.append(L[1] - L[0] > 1e-9)
    Vfin = {it: snaps[("V", it)] for it in range(1, K + 1)}
    # hand-over of E[y]
    ly = m.finalize_v(X=X, y=y, n_acc=n_acc, f_acc=f_acc, **kw)
    ly = [np.asarray(v, float) for v in ly]
    # ---- U phase
    Vn = np.asarray(m.V, float)
    L = [lik_u(np.asarray(m.U, float), Vn, ly)]
    for it in range(1, K + 1):
        Uprev = np.array(m.U, float)
        out = m.e_step_u(X=X, y=y, latent_y=ly, **kw)
        m.m_step_u([out])
        c.transitions += 2
        groups = [(nh[i], fh[i] - nh[i] * (mvec + Vn @ np.asarray(ly[y[i]], float))) for i in range(len(y))]
        Uref = em_pair_subspace(Uprev, groups)
        c.close(np.asarray(m.U, float), Uref, "u_pair_definition", f"U after pair {it} vs the exact EM pair from the definition", tags, rtol=1e-7, scale=float(np.abs(Uref).max()) + 1e-9, kappa=1e5)
        L.append(lik_u(np.asarray(m.U, float), Vn, ly))
        c.check(L[-1] >= L[-2] - 1e-9 * max(1.0, abs(L[-2])), "u_phase", f"U-phase marginal likelihood fell from {L[-2]!r} to {L[-1]!r} at pair {it}", tags)
        shapes(f"U phase pair {it}")
    rose.append(L[1] - L[0] > 1e-9)
    lx = m.finalize_u(X=X, y=y, latent_y=ly, **kw)
    Un = np.asarray(m.U, float)
    # ---- D phase
    L = [lik_d(np.asarray(m.D, float), Un, Vn, ly, lx)]
    for it in range(1, K + 1):
        Dprev = np.array(m.D, float)
        out = m.e_step_d(X=X, y=y, latent_x=lx, latent_y=ly, n_acc=n_acc, f_acc=f_acc, **kw)
        m.m_step_d([out])
        c.transitions += 2
        A1, A2 = np.zeros(C * D), np.zeros(C * D)
        for k in classes:
            idx = [i for i in range(len(y)) if y[i] == k]
            nn = sum(nh[i] for i in idx)
            ff = np.zeros_like(mvec)
            for j, i in enumerate(idx):
                ff += fh[i] - nh[i] * (mvec + Vn @ np.asarray(ly[k], float) + Un @ np.asarray(lx[k], float)[:, j])
            prec = 1.0 + Dprev * Dprev * nn / var
            zz = Dprev * ff / var / prec
            A1 += nn * (1.0 / prec + zz * zz)
            A2 += ff * zz
        with np.errstate(all="ignore"):
            Dref = A2 / A1
        ok_rows = np.isfinite(Dref)
        c.close(np.asarray(m.D, float)[ok_rows], Dref[ok_rows], "d_pair_definition", f"D after pair {it} vs the exact EM pair from the definition", tags, rtol=1e-7,
                scale=float(np.abs(Dref[ok_rows]).max()) + 1e-9 if ok_rows.any() else 1.0, kappa=1e5)
        L.append(lik_d(np.asarray(m.D, float), Un, Vn, ly, lx))
        c.check(L[-1] >= L[-2] - 1e-9 * max(1.0, abs(L[-2])), "d_phase", f"D-phase marginal likelihood fell from {L[-2]!r} to {L[-1]!r} at pair {it}", tags)
        shapes(f"D phase pair {it}")
    rose.append(L[1] - L[0] > 1e-9)
    manual = dict(U=np.array(m.U, float), V=np.array(m.V, float), D=np.array(m.D, float))
    # ---- fit(em_iterations=K) == the manual sequence (list input, and a bag with 2 partitions)
    for how in ("list", "bag", "bag on serialising executor", "list with the labels in a pandas Series whose index is shuffled", "list with the labels in a Python list"):
        f = _machine(case, ubm, s, K)
        data = copy.deepcopy(X) if how.startswith("list") else db.from_sequence(copy.deepcopy(X), npartitions=2)
        if "pandas" in how:
            import pandas as pd

            f.fit(data, pd.Series(y.copy(), index=[(3 * i + 1) % len(y) for i in range(len(y))] if len(y) % 3 else list(range(len(y)))[::-1]))
        elif "Python list" in how:
            f.fit(data, [int(v) for v in y])
        elif how == "bag on serialising executor":
            # every task on a pickled copy of the machine: only returned values reach the caller
            from mc import sched

            sched.run_with(lambda: f.fit(data, y.copy()), (), "serialised")
        else:
            f.fit(data, y.copy())
        c.transitions += 1
        for nm in ("U", "V", "D"):
            c.close(np.asarray(getattr(f, nm), float), manual[nm], "fit_equals_manual", f"{nm} after fit(em_iterations={K}) from a {how} vs {K} manual E/M pairs per phase", tags,
                    rtol=1e-8, scale=float(np.abs(manual[nm]).max()) + 1e-9)
    # history: the same machine object was trained on other statistics before; with the subspaces put back to the same
    # start through the public setters, training again must give the same model as a fresh machine
    f2 = _machine(case, ubm, s, K)
    U0, V0, D0 = np.array(f2.U, float), np.array(f2.V, float), np.array(f2.D, float)
    other = _stats(ubm, len(y), s * 1.0, o, frac=True)[::-1]
    f2.fit(copy.deepcopy(other), y.copy())
    f2.U, f2.V, f2.D = U0, V0, D0
    f2.fit(copy.deepcopy(X), y.copy())
    c.transitions += 2
    for nm in ("U", "V", "D"):
        c.close(np.asarray(getattr(f2, nm), float), manual[nm], "refit_equals_fresh", f"{nm} of a machine trained earlier on other statistics and reset through the setters vs a fresh machine", tags,
                rtol=1e-8, scale=float(np.abs(manual[nm]).max()) + 1e-9)
    # fit with fewer iterations: the V phase hands over after exactly k pairs
    f1 = _machine(case, ubm, s, 1)
    f1.fit(copy.deepcopy(X), y.copy())
    c.close(np.asarray(f1.V, float), Vfin[1], "fit_equals_manual", "V after fit(em_iterations=1) vs one manual pair", tags, rtol=1e-8, scale=float(np.abs(Vfin[1]).max()) + 1e-9)
    c.transitions += 1
    c.states = 3 * K
    c.traces = c.transitions
    sig = "%d|%d|%d|%d|%s|%s" % (case["ubm"], case["labels"], case["rU"], case["rV"], case["init"], case.get("shared"))
    return c.result(nontrivial=all(rose), sig=sig)
