"""C07 - ISV and JFA enrolment climbs to the joint posterior mode of the latent factors.

Case = UBM x (U, V, D) x enrolment statistics list. Inside: enroll_iterations = 1..6, 50, 200. Oracle: the joint
log-posterior as one quadratic form (mc/oracle_fa.Joint, assembled from the model definition) and block-coordinate
ascent *derived from that quadratic form* (y, then every x_h, then z; ISV has no y). The returned factors after k
iterations must equal the reference after k sweeps; the reference's posterior is non-decreasing by construction (checked),
and for large k the returned factors must be at the unique mode solve(P, b).
"""
import copy

import numpy as np

from mc import oracle_fa as ofa
from mc.util import Ctx, affine
from props import c11

PROPERTY = "C07"
RULE = (
    "complete product: {ISV, JFA} x 3 UBMs x 4 subspace sets (entries from {-1,0,1/2,2}, ranks 1-2, D of order 1 so that the "
    "z coupling is visible, and D = 1e-10) x 6 statistics lists (1-3 sessions, fractional counts, a zero-count component, "
    "repeated session) ; per case enroll_iterations in {1,2,3,4,5,6,50,200}, then three histories on the same machine object (U/V replaced through the setters; machine trained by fit; UBM means and variances reassigned in place) each followed by enrolment with 1-3 iterations. Non-trivial: the second sweep moves the "
    "factors by > 1e-9 (the blocks are coupled); distinct = distinct case"
)
ASSUMPTIONS = ["subspaces are configured through the public setters", "float64 linear algebra of the reference (condition numbers of P are below 1e8 on this alphabet; checked)"]
BUDGET = {"quick": 600, "thorough": 3600}
ITERS = [1, 2, 3, 4, 5, 6, 50, 200]
ITERS_THOROUGH = [1, 2, 3, 4, 5, 6, 7, 8, 9, 10, 20, 50, 100, 200]


def cases(tier, seed):
    out = []
    subs = range(4) if tier == "quick" else range(12)
    for kind in ("isv", "jfa"):
        for u in range(len(c11.UBMS)):
            for sub in subs:
                for sl in range(7):
                    out.append(dict(kind=kind, ubm=u, sub=sub, sl=sl, fac=0, probe=0, seed=seed, tier=tier))
    return out


def _stats(ubm, sl, s, o):
    C, D = ubm.means.shape
    frames = [np.array(f, float)[:, :D] * s + o for f in c11.FRAMES]
    if sl == 0:
        sts = [ubm.acc_stats(frames[0])]
    elif sl == 1:
        sts = [ubm.acc_stats(f) for f in frames[:2]]
    elif sl == 2:
        sts = [ubm.acc_stats(f) for f in frames[:3]]
    elif sl == 3:
        sts = [ubm.acc_stats(f) for f in frames[1:3]]
        for st in sts:
            st.n, st.sum_px, st.sum_pxx = st.n * 0.25, st.sum_px * 0.25, st.sum_pxx * 0.25
    elif sl == 4:
        sts = [ubm.acc_stats(f) for f in frames[:2]]
        for st in sts:
            st.n[-1], st.sum_px[-1], st.sum_pxx[-1] = 0.0, 0.0, 0.0
    elif sl == 5:
        sts = [ubm.acc_stats(frames[2]), ubm.acc_stats(frames[2]), ubm.acc_stats(frames[3])]
    else:
        from bob.learn.em import GMMStats

        sts = [ubm.acc_stats(frames[0]), GMMStats(C, D), ubm.acc_stats(frames[1]), ubm.acc_stats(frames[3])]  # a session without frames in the middle
    return sts


def run_case(case):
    c = Ctx()
    s, o = affine(case["seed"])
    ubm = c11._ubm(c11.UBMS[case["ubm"]], s, o)
    m = c11._machine(case, ubm, s)
    sts = _stats(ubm, case["sl"], s, o)
    tags = dict(kind=case["kind"])
    V = np.asarray(m.V, float) if case["kind"] == "jfa" else None
    J = ofa.Joint(ubm.means, ubm.variances, m.U, V, m.D, [(np.asarray(st.n, float), np.asarray(st.sum_px, float)) for st in sts])
    cond = float(np.linalg.cond(J.P))
    if cond > 1e10:
        c.count("ill_conditioned_skipped")
        return c.result(nontrivial=False, sig=None)
    # reference trajectory
    theta = np.zeros(J.dim)
    ref = {}
    Jvals = [J.J(theta)]
    ITERS = ITERS_THOROUGH if case.get("tier") == "thorough" else globals()["ITERS"]
    for k in range(1, max(ITERS) + 1):
        theta = J.sweep(theta)
        Jvals.append(J.J(theta))
        if k in ITERS:
            ref[k] = theta.copy()
    ok_mono = all(Jvals[i + 1] >= Jvals[i] - 1e-9 * max(1.0, abs(Jvals[i])) for i in range(len(Jvals) - 1))
    c.check(ok_mono, "oracle_selfcheck", "reference block-coordinate ascent is not monotone: the oracle is wrong", tags)
    mode = J.mode()
    moved = float(np.abs(ref[2] - ref[1]).max()) > 1e-9
    sc = float(np.abs(mode).max()) + 1.0
    for k in ITERS:
        m.enroll_iterations = k if k % 2 else np.int64(k)  # also as a NumPy integer (np.arange, parameter grid, HDF5 attribute)
        out = m.enroll(copy.deepcopy(sts))
        c.transitions += 1
        y_ref, z_ref = J.split(ref[k])
        if case["kind"] == "jfa":
            y, z = np.asarray(out[0], float), np.asarray(out[1], float)
            c.check(y.shape == y_ref.shape, "shape", f"y shape {y.shape}", tags)
            c.close(y, y_ref, "y_after_k", f"speaker factors after {k} enrolment iterations vs {k} exact coordinate-ascent sweeps", tags, rtol=1e-7, scale=sc, kappa=1e4)
        else:
            z = np.asarray(out, float)
            if z.ndim == 2:
                z = z[0]
        c.check(z.shape == z_ref.shape, "shape", f"z shape {z.shape} want {z_ref.shape}", tags)
        if z.shape == z_ref.shape:
            c.close(z, z_ref, "z_after_k", f"residual offset after {k} enrolment iterations vs {k} exact coordinate-ascent sweeps", tags, rtol=1e-7, scale=sc, kappa=1e4)
        if k == 200:
            conv = float(np.abs(ref[200] - mode).max()) <= 1e-7 * sc
            if conv:
                ym, zm = J.split(mode)
                c.close(z, zm, "converges_to_mode", "residual offset after 200 iterations vs the unique joint posterior mode", tags, rtol=1e-6, scale=sc, kappa=1e6)
                if case["kind"] == "jfa":
                    c.close(y, ym, "converges_to_mode", "speaker factors after 200 iterations vs the unique joint posterior mode", tags, rtol=1e-6, scale=sc, kappa=1e6)
                c.count("mode_reached")
            else:
                c.count("reference_not_converged_at_200")
        c.states += 1
    # history: the subspaces of the *same* machine object are replaced through the public setters after it has
    # enrolled clients; enrolment must follow the new model
    if not c.viol:
        other = c11._machine(dict(case, sub=(case["sub"] + 1) % 3), ubm, s)
        rU = np.asarray(m.U).shape[1]
        newU = c11._pattern(np.asarray(m.U).shape, case["sub"] + 5, s)
        m.U = newU
        newV = None
        if case["kind"] == "jfa":
            newV = c11._pattern(np.asarray(m.V).shape, case["sub"] + 7, s)
            m.V = newV
        J2 = ofa.Joint(ubm.means, ubm.variances, newU, newV, m.D, [(np.asarray(st.n, float), np.asarray(st.sum_px, float)) for st in sts])
        if np.linalg.cond(J2.P) < 1e10:
            th = np.zeros(J2.dim)
            for k in (1, 2, 3):
                th = J2.sweep(th)
                m.enroll_iterations = k if k % 2 else np.int64(k)  # also as a NumPy integer (np.arange, parameter grid, HDF5 attribute)
                out = m.enroll(copy.deepcopy(sts))
                c.transitions += 1
                y_ref, z_ref = J2.split(th)
                z = np.asarray(out[1] if case["kind"] == "jfa" else out, float)
                z = z[0] if z.ndim == 2 else z
                sc2 = float(np.abs(J2.mode()).max()) + 1.0
                c.close(z, z_ref, "after_subspace_update", f"residual offset after {k} iterations once U/V were replaced on the same machine", tags, rtol=1e-7, scale=sc2, kappa=1e4)
                if case["kind"] == "jfa":
                    c.close(np.asarray(out[0], float), y_ref, "after_subspace_update", f"speaker factors after {k} iterations once U/V were replaced", tags, rtol=1e-7, scale=sc2, kappa=1e4)
    # history: the machine is (re)trained after it has enrolled clients; enrolment must follow the trained subspaces
    if not c.viol:
        tr_stats = _stats(ubm, 2, s, o) + _stats(ubm, 5, s, o)
        tr_y = np.array([0, 1, 0, 1, 0, 1])[: len(tr_stats)]
        m.em_iterations = 1
        m.fit(copy.deepcopy(tr_stats), tr_y)
        c.transitions += 1
        V3 = np.asarray(m.V, float) if case["kind"] == "jfa" else None
        J3 = ofa.Joint(ubm.means, ubm.variances, np.asarray(m.U, float), V3, np.asarray(m.D, float), [(np.asarray(st.n, float), np.asarray(st.sum_px, float)) for st in sts])
        if np.all(np.isfinite(J3.P)) and np.linalg.cond(J3.P) < 1e10:
            th = np.zeros(J3.dim)
            sc3 = float(np.abs(J3.mode()).max()) + 1.0
            for k in (1, 2, 3):
                th = J3.sweep(th)
                m.enroll_iterations = k if k % 2 else np.int64(k)  # also as a NumPy integer (np.arange, parameter grid, HDF5 attribute)
                out = m.enroll(copy.deepcopy(sts))
                c.transitions += 1
                y_ref, z_ref = J3.split(th)
                z = np.asarray(out[1] if case["kind"] == "jfa" else out, float)
                z = z[0] if z.ndim == 2 else z
                c.close(z, z_ref, "after_training", f"residual offset after {k} iterations once the machine was trained (fit) after earlier enrolments", tags, rtol=1e-6, scale=sc3, kappa=1e5)
                if case["kind"] == "jfa":
                    c.close(np.asarray(out[0], float), y_ref, "after_training", f"speaker factors after {k} iterations once the machine was trained after earlier enrolments", tags, rtol=1e-6, scale=sc3, kappa=1e5)
    # history: the UBM held by the machine gets new means and variances *in place* (same GMMMachine object, public setters)
    # after the machine has enrolled clients; enrolment must follow the UBM's current means and covariances
    if not c.viol:
        g = m.ubm
        mu_old, var_old = np.array(g.means, float), np.array(g.variances, float)
        mu_new = mu_old + (np.arange(mu_old.size).reshape(mu_old.shape) % 3 - 0.75) * 0.5 * abs(s)
        var_new = var_old * (1.0 + 0.5 * ((np.arange(var_old.size).reshape(var_old.shape) % 2) * 2 - 0.5))
        g.means = mu_new.copy()
        g.variances = var_new.copy()
        c.check(np.array_equal(np.asarray(g.variances), var_new), "wrap", "variances above the floors must be taken as given", tags)
        V4 = np.asarray(m.V, float) if case["kind"] == "jfa" else None
        J4 = ofa.Joint(mu_new, var_new, np.asarray(m.U, float), V4, np.asarray(m.D, float), [(np.asarray(st.n, float), np.asarray(st.sum_px, float)) for st in sts])
        if np.all(np.isfinite(J4.P)) and np.linalg.cond(J4.P) < 1e10:
            th = np.zeros(J4.dim)
            sc4 = float(np.abs(J4.mode()).max()) + 1.0
            for k in (1, 2, 3):
                th = J4.sweep(th)
                m.enroll_iterations = k
                out = m.enroll(copy.deepcopy(sts))
                c.transitions += 1
                y_ref, z_ref = J4.split(th)
                z = np.asarray(out[1] if case["kind"] == "jfa" else out, float)
                z = z[0] if z.ndim == 2 else z
                c.close(z, z_ref, "after_ubm_update", f"residual offset after {k} iterations once the UBM's means and variances were reassigned in place", tags, rtol=1e-6, scale=sc4, kappa=1e5)
                if case["kind"] == "jfa":
                    c.close(np.asarray(out[0], float), y_ref, "after_ubm_update", f"speaker factors after {k} iterations once the UBM's means and variances were reassigned in place", tags, rtol=1e-6, scale=sc4, kappa=1e5)
            c.count("ubm_update_histories")
    c.traces = c.transitions
    sig = "%s|%d|%d|%d" % (case["kind"], case["ubm"], case["sub"], case["sl"])
    return c.result(nontrivial=moved, sig=sig)
