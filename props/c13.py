"""C13 - trained models are valid: finite, weights on the simplex, variances above floors.

Case = trainer x degenerate data set x configuration; inside, the model is observed after every iteration count
1..K. Only predicates are asserted (no reference values): finiteness, weights >= 0 summing to one up to the documented
count floor, variances >= current floors > 0, i-vector covariances >= floor, finite likelihood of every training sample.
"""
import itertools

import numpy as np

from mc.util import Ctx, affine, sync_dask

PROPERTY = "C13"
RULE = (
    "complete product: trainer {k-means, GMM-ML (explicit start, floors set before / raised after the variances), GMM from "
    "k-means (explicit incl. a centroid that captures nothing; seeded random), GMM-MAP, i-vector} x degenerate data sets "
    "(duplicates only, constant column, fewer distinct points than components, far outlier, cluster-ordered blobs, single "
    "sample) x all 8 switch sets x floors x input kind (numpy, dask with 2/3/4 row chunks) x iteration counts 1..K. "
    "Non-trivial: a guard or floor was actually active (empty cluster, zero-count component, variance at its floor); "
    "distinct = distinct case"
)
ASSUMPTIONS = [
    "the exact Lloyd oracle is not needed here: activity of a guard is detected from the model itself (zero weight / variance at floor / zero count)",
    "weights may exceed the simplex by the documented count floor: |sum - 1| <= C*eps/T + 1e-12",
]
BUDGET = {"quick": 900, "thorough": 3 * 3600}
EPS = float(np.finfo(float).eps)

DATA = {
    "dups": [[2.5, 1.0]] * 5,
    "const": [[1.0, 2.5], [0.0, 2.5], [-3.0, 2.5], [10.0, 2.5], [4.0, 2.5], [4.5, 2.5]],
    "two_points": [[0.0, 0.0], [0.0, 0.0], [10.0, 10.0], [10.0, 10.0], [0.0, 0.0], [10.0, 10.0]],
    "outlier": [[0.0, 0.0], [1.0, 0.5], [0.5, 1.0], [0.25, 0.25], [1e6, -1e6], [0.75, 0.5]],
    "ordered": [[0.0, 0.0], [0.5, 0.5], [0.25, 1.0], [10.0, 10.0], [10.5, 10.0], [10.0, 11.0], [30.0, 0.0], [31.0, 1.0], [30.5, 0.5]],
    "single": [[1.0, 2.5]],
}
STARTS = [
    dict(mu=[[0.0, 0.0], [100.0, 100.0]], var=[[1.0, 1.0], [1.0, 1.0]], w=[0.5, 0.5]),
    dict(mu=[[0.0, 0.0], [10.0, 10.0], [30.0, 0.0]], var=[[1.0, 1.0], [0.25, 4.0], [1.0, 1.0]], w=[0.25, 0.5, 0.25]),
    dict(mu=[[2.5, 1.0], [2.5, 1.0]], var=[[2.0**-20, 1.0], [1.0, 2.0**-20]], w=[0.125, 0.875]),
    dict(mu=[[1.0, 2.5], [-500.0, 700.0], [4.0, 2.5]], var=[[4.0, 4.0], [1.0, 1.0], [0.25, 0.25]], w=[0.5, 0.25, 0.25]),
]
SWITCHES = [(a, b, c_) for a in (1, 0) for b in (1, 0) for c_ in (1, 0)]


def _kinds(n, tier):
    ks = ["np"]
    if n >= 2:
        ks.append([1, n - 1])
    if n >= 3:
        ks.append([n // 3, n // 3, n - 2 * (n // 3)])
    if n >= 4 and tier == "thorough":
        ks.append([1] * n)
    if n >= 8:
        ks.append([3, 3, 2, n - 8] if n > 8 else [3, 3, 2])
    return ks


def cases(tier, seed):
    out = []
    K = 3 if tier == "quick" else 4
    for dname, rows in DATA.items():
        n = len(rows)
        for kind in _kinds(n, tier):
            for si in range(len(STARTS)):
                C = len(STARTS[si]["w"])
                out.append(dict(trainer="kmeans", data=dname, start=si, kind=kind, K=K, seed=seed))
                out.append(dict(trainer="gmm_kmeans", data=dname, start=si, kind=kind, K=K, seed=seed, sw=[1, 1, 1]))
                if kind == "np" or tier == "thorough":
                    out.append(dict(trainer="gmm_kmeans_random", data=dname, start=si, kind=kind, K=K, seed=seed, sw=[1, 1, 1]))
                for sw in SWITCHES:
                    for floor in ("default", "half_before", "half_after"):
                        if kind != "np" and (floor != "default" or sw not in ((1, 1, 1), (0, 1, 0))):
                            continue
                        out.append(dict(trainer="gmm_ml", data=dname, start=si, kind=kind, K=K, sw=list(sw), floor=floor, seed=seed))
                    if kind == "np" or sw == (1, 1, 1):
                        for rel in (4.0, None, "array"):
                            out.append(dict(trainer="gmm_map", data=dname, start=si, kind=kind, K=K, sw=list(sw), rel=rel, floor="default", seed=seed))
                        out.append(dict(trainer="gmm_map", data=dname, start=si, kind="np", K=K, sw=list(sw), rel=4.0, floor="half_after", seed=seed))
    # many features, most of them constant: variances sit at the floor and their product underflows
    for kind in ("np", [2, 3]):
        for sw in SWITCHES:
            for nfeat in (30, 200):
                out.append(dict(trainer="gmm_wide", kind=kind, sw=list(sw), D=nfeat, K=K, seed=seed))
    for ui in range(3):
        for pat in range(5):
            for upd in (True, False):
                for floor in (1e-10, 0.5):
                    for bag in (False, True):
                        out.append(dict(trainer="ivector", ubm=ui, pat=pat, upd=upd, vfloor=floor, bag=bag, K=K, seed=seed))
    return out


def _mk(X, kind):
    if kind == "np":
        return X.copy()
    import dask.array as da

    return da.from_array(X.copy(), chunks=(tuple(kind), (X.shape[1],)))


def _cond(prev, X):
    """Conditioning of the responsibilities under the model that produced the weights: exp(lwl - ll) carries an absolute
    error of about eps*max|lwl| when the samples are far in the tails."""
    if prev is None:
        return 0.0
    try:
        L = np.asarray(prev.log_weighted_likelihood(X), float)
    except Exception:
        return 0.0
    L = L[np.isfinite(L)]
    return float(np.abs(L).max()) if L.size else 0.0


def _check_gmm(c, m, X, tags, what, cond=0.0):
    w = np.asarray(m.weights, float)
    mu = np.asarray(m.means, float)
    var = np.asarray(m.variances, float)
    thr = np.broadcast_to(np.asarray(m.variance_thresholds, float), var.shape)
    c.check(bool(np.all(np.isfinite(w)) and np.all(np.isfinite(mu)) and np.all(np.isfinite(var))), "finite",
            lambda: f"{what}: non-finite parameter w={w.tolist()} mu={mu.tolist()} var={var.tolist()}", tags)
    c.check(bool(np.all(w >= 0)) and abs(float(w.sum()) - 1.0) <= len(w) * EPS / max(1, len(X)) + 1e-12 + 8 * EPS * cond, "simplex",
            lambda: f"{what}: weights {w.tolist()} sum {w.sum()!r}", tags)
    c.check(bool(np.all(thr > 0)) and bool(np.all(var >= thr)), "floors", lambda: f"{what}: variances {var.tolist()} vs floors {thr.tolist()}", tags)
    if np.all(np.isfinite(var)) and np.all(var > 0):
        ll = np.asarray(m.log_likelihood(X))
        c.check(bool(np.all(np.isfinite(ll))), "finite_loglik", lambda: f"{what}: log-likelihood of training samples {ll.tolist()}", tags)
    return bool(np.any(w == 0) or np.any(var <= thr * (1 + 1e-12)) or np.any(w * len(X) < 1e-9))


def _gmm_case(case, c, X, s, o):
    from bob.learn.em import GMMMachine, KMeansMachine

    st = STARTS[case["start"]]
    C = len(st["w"])
    mu0 = np.array(st["mu"], float) * s + o
    var0 = np.array(st["var"], float) * s * s
    sw = case["sw"]
    tr = case["trainer"]
    tags = dict(trainer=tr, kind="numpy" if case["kind"] == "np" else "dask")
    active = False
    prev = None
    for k in range(1, case["K"] + 1):
        kw = dict(update_means=bool(sw[0]), update_variances=bool(sw[1]), update_weights=bool(sw[2]), max_fitting_steps=k, convergence_threshold=None)
        if tr == "gmm_ml":
            m = GMMMachine(C, weights=np.array(st["w"], float), **kw)
            m.means = mu0.copy()
            if case["floor"] == "half_before":
                m.variance_thresholds = 0.5 * s * s
            m.variances = var0.copy()
            if case["floor"] == "half_after":
                m.variance_thresholds = 0.5 * s * s
        elif tr == "gmm_map":
            u = GMMMachine(C, weights=np.array(st["w"], float))
            u.means = mu0.copy()
            u.variances = var0.copy()
            if case["rel"] == "array":  # fixed adaptation ratio given per component
                m = GMMMachine(C, trainer="map", ubm=u, map_relevance_factor=None, map_alpha=np.array([0.25, 0.875, 0.5][:C]), **kw)
            else:
                m = GMMMachine(C, trainer="map", ubm=u, map_relevance_factor=case["rel"], map_alpha=0.5, **kw)
            if case["floor"] == "half_after":
                m.variance_thresholds = 0.5 * s * s
        elif tr == "gmm_kmeans":
            m = GMMMachine(C, k_means_trainer=KMeansMachine(C, init_method=mu0.copy(), max_iter=2, convergence_threshold=None), **kw)
        else:
            if len(X) < C:
                return False
            m = GMMMachine(C, k_means_trainer=KMeansMachine(C, init_method="random", random_state=case["start"], max_iter=2), **kw)
        if k == 1 and tr in ("gmm_ml", "gmm_map"):
            import copy as _copy

            prev = _copy.deepcopy(m)
        m.fit(_mk(X, case["kind"]))
        c.transitions += 1
        active |= _check_gmm(c, m, X, tags, f"{tr} after {k} iterations", _cond(prev, X))
        prev = m
        c.states += 1
        if c.viol:
            break
    return active


def _kmeans_case(case, c, X, s, o):
    from bob.learn.em import KMeansMachine

    st = STARTS[case["start"]]
    C = len(st["w"])
    init = np.array(st["mu"], float) * s + o
    tags = dict(trainer="kmeans", kind="numpy" if case["kind"] == "np" else "dask")
    active = False
    for k in range(0, case["K"] + 1):
        m = KMeansMachine(C, init_method=init.copy(), max_iter=k, convergence_threshold=None).fit(_mk(X, case["kind"]))
        c.transitions += 1
        cen = np.asarray(m.centroids_, float)
        c.check(cen.shape == init.shape and bool(np.all(np.isfinite(cen))), "finite", lambda: f"k-means centroids after {k} iterations {cen.tolist()}", tags)
        if k:
            c.check(bool(np.isfinite(m.average_min_distance)), "finite", f"criterion {m.average_min_distance!r}", tags)
        v, w = m.get_variances_and_weights_for_each_cluster(_mk(X, case["kind"]))
        v, w = np.asarray(v, float), np.asarray(w, float)
        c.check(bool(np.all(np.isfinite(v)) and np.all(np.isfinite(w))), "finite", lambda: f"cluster variances {v.tolist()} weights {w.tolist()}", tags)
        c.check(bool(np.all(w >= 0)) and abs(float(w.sum()) - 1) <= 1e-12, "simplex", lambda: f"cluster weights {w.tolist()}", tags)
        active |= bool(np.any(w == 0))
        c.states += 1
        if c.viol:
            break
    return active


def _ivector_case(case, c, s, o):
    import dask.bag as db

    from bob.learn.em import GMMMachine, GMMStats, IVectorMachine

    ui = case["ubm"]
    u = GMMMachine(2 if ui < 2 else 3)
    if ui == 0:
        u.means, u.variances = np.array([[0.0, 1.0], [4.0, 4.5]]) * s + o, np.array([[1.0, 2.0], [0.5, 1.0]]) * s * s
    elif ui == 1:
        u.means, u.variances = np.array([[0.0, 1.0], [4.0, 4.5]]) * s + o, np.array([[1.0, 2.0], [2.0**-6, 2.0**-8]]) * s * s  # below the 0.5 floor
    else:
        u.means, u.variances = np.array([[0.0, 1.0], [4.0, 4.5], [-50.0, 60.0]]) * s + o, np.array([[1.0, 2.0], [0.5, 1.0], [EPS, EPS]]) * s * s
        u.weights = np.array([0.5, 0.25, 0.25])
    C = u.n_gaussians
    rng = np.random.RandomState(99)
    frames = [np.round(rng.normal(size=(4, 2)) * 4) / 4 * s + o + (np.array([4.0, 4.5]) * s if i % 2 else 0.0) for i in range(4)]
    stats = [u.acc_stats(f) for f in frames]
    pat = case["pat"]
    if pat == 1:  # second component never sees data
        for st in stats:
            st.n[1] = 0.0
            st.sum_px[1] = 0.0
            st.sum_pxx[1] = 0.0
    elif pat == 2:  # a statistics object without frames
        z = GMMStats(C, 2)
        stats = stats[:2] + [z]
    elif pat == 3:  # a single statistics object
        stats = stats[:1]
    elif pat == 4:  # identical statistics
        stats = [stats[0], stats[0], stats[0]]
    tags = dict(trainer="ivector", upd=case["upd"])
    active = False
    for k in range(1, case["K"] + 1):
        np.random.seed(17)
        m = IVectorMachine(u, dim_t=2, max_iterations=k, update_sigma=case["upd"], variance_floor=case["vfloor"] * (s * s if case["vfloor"] > 1e-6 else 1.0))
        X = db.from_sequence(list(stats), npartitions=2) if case["bag"] and len(stats) >= 2 else list(stats)
        m.fit(X)
        c.transitions += 1
        T, sig = np.asarray(m.T, float), np.asarray(m.sigma, float)
        c.check(bool(np.all(np.isfinite(T)) and np.all(np.isfinite(sig))), "finite", lambda: f"i-vector T/sigma after {k} iterations: T={T.tolist()} sigma={sig.tolist()}", tags)
        if case["upd"]:
            c.check(bool(np.all(sig >= m.variance_floor)), "ivector_floor", lambda: f"sigma {sig.tolist()} below floor {m.variance_floor}", tags)
            active |= bool(np.any(sig <= m.variance_floor * (1 + 1e-12)))
        if np.all(np.isfinite(T)) and np.all(np.isfinite(sig)) and np.all(sig > 0):
            for st in stats:
                w = np.asarray(m.project(st), float)
                c.check(bool(np.all(np.isfinite(w))), "finite", lambda: f"projection {w.tolist()}", tags)
        active |= pat in (1, 2)
        c.states += 1
        if c.viol:
            break
    return active


def _wide_case(case, c, s, o):
    from bob.learn.em import GMMMachine

    D = case["D"]
    base = np.array([[0.0, 1.0, 2.5], [1.0, 0.5, -3.0], [10.0, 9.0, 0.5], [11.0, 10.0, 0.0], [0.5, 0.75, 1.0]]) * s + o
    X = np.hstack([base, np.full((5, D - 3), 2.5 * s + o) if D <= 30 else np.tile(base, (1, (D - 3) // 3 + 1))[:, : D - 3] * 0.125])
    sw = case["sw"]
    tags = dict(trainer="gmm_wide", kind="numpy" if case["kind"] == "np" else "dask")
    active = False
    for k in range(1, case["K"] + 1):
        m = GMMMachine(2, update_means=bool(sw[0]), update_variances=bool(sw[1]), update_weights=bool(sw[2]), max_fitting_steps=k, convergence_threshold=None)
        m.means = np.vstack([X[0], X[2]]) + 0.25 * s
        m.variances = np.full((2, D), (1.0 if D <= 30 else 2.0**-6) * s * s)
        m.fit(_mk(X, case["kind"]))
        c.transitions += 1
        active |= _check_gmm(c, m, X, tags, f"gmm_wide (D={D}) after {k} iterations", _cond(m, X))
        c.states += 1
        if c.viol:
            break
    return active


def run_case(case):
    sync_dask()
    c = Ctx()
    s, o = affine(case["seed"])
    if case["trainer"] == "gmm_wide":
        active = _wide_case(case, c, s, o)
        c.traces = c.transitions
        return c.result(nontrivial=True, sig="wide|%s|%s|%d" % (case["kind"], case["sw"], case["D"]))
    if case["trainer"] == "ivector":
        active = _ivector_case(case, c, s, o)
        sig = "iv|%d|%d|%s|%s|%s" % (case["ubm"], case["pat"], case["upd"], case["vfloor"], case["bag"])
    else:
        X = np.array(DATA[case["data"]], float) * s + o
        if case["trainer"] == "kmeans":
            active = _kmeans_case(case, c, X, s, o)
        else:
            active = _gmm_case(case, c, X, s, o)
        sig = "%s|%s|%d|%s|%s|%s|%s" % (case["trainer"], case["data"], case["start"], case["kind"], case.get("sw"), case.get("floor"), case.get("rel"))
    c.traces = c.transitions
    return c.result(nontrivial=active, sig=sig)
