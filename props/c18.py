"""C18 - saving and loading a GMM or its statistics preserves them exactly.

Machine cases = start state {ML, ML with per-component floors, MAP} x every sequence of <= 2 operations from a reduced
C17 menu (so the saved states are *reachable* states, incl. sub-epsilon floors, list weights, trained states) x
iteration limit x convergence threshold x switch set. Inside: 1..3 round trips through a path and through an open file,
constructor-from-file and load() into an object of another shape, re-save and dataset-by-dataset comparison, a
behavioural check (original and reloaded object are trained further and must agree) and a legacy-format file
synthesised from the same state. Statistics cases = values x shapes with the same round trips.
"""
import copy
import itertools
import os
import shutil
import tempfile

import numpy as np

from mc.util import Ctx, affine
from props import c17

PROPERTY = "C18"
RULE = (
    "complete product: {ML, ML+matrix floors, MAP} x all sequences of <= 2 operations over a 13-operation menu (weights incl. a "
    "list, means, variances incl. sub-floor values, floors incl. 2^-70 (< default eps), EM steps) x (max_fitting_steps, "
    "convergence_threshold) in {1,7,200,None,0} x {1e-5, 0.5, None, 0.0} minus (None, None) x 2 rotating switch sets; per case "
    "round trips 1..3 via path and via open file, from_hdf5 and load into another shape, re-save comparison, further "
    "training of original vs reloaded, legacy file. Statistics: 7 value patterns x 4 shapes. Non-trivial: the saved state "
    "differs from the start state or has a non-default setting; distinct = distinct (start, ops, settings)"
)
ASSUMPTIONS = [
    "settings the file does not record (MAP relevance factor / alpha, count floor, random_state) are left at their defaults so that 'trains identically' is decidable from the file",
    "legacy files are synthesised by the harness in the layout the legacy reader expects (no file_version attribute)",
]
BUDGET = {"quick": 900, "thorough": 4 * 3600}

MENU = [("w", 1), ("w", 3), ("mu", 1), ("var", 1), ("var", 2), ("floor", 1), ("floor", 3), ("floor", 4), ("floor", 6), ("em", 7), ("em", 2), ("em", 4), ("fit2", 0)]
CAPS = [1, 7, 200, None, 0]
THRS = [1e-5, 0.5, None, 0.0]
SWS = [(1, 0, 0), (1, 1, 1), (0, 1, 0), (0, 0, 1)]
STARTS = ["ml", "ml_matrix_floor", "map"]


def cases(tier, seed):
    out = []
    seqs = [[]] + [[a] for a in MENU] + [[a, b] for a in MENU for b in MENU]
    if tier == "quick":
        seqs = seqs[:14] + seqs[14::3]
    k = 0
    for st in STARTS:
        for seq in seqs:
            for cap, thr in itertools.product(CAPS, THRS):
                if cap is None and thr is None:
                    continue
                k += 1
                if tier == "quick" and k % 3:
                    continue
                out.append(dict(kind="machine", start=st, ops=[list(o) for o in seq], cap=cap, thr=thr, sw=list(SWS[k % 4]), seed=seed))
    for pat in range(7):
        for shape in ([1, 1], [2, 1], [2, 3], [3, 2], [12, 2], [5, 1], [9, 2]):
            out.append(dict(kind="stats", pat=pat, shape=shape, seed=seed))
    for C in (1, 2, 5, 10, 11, 12, 23):
        for D in (1, 3):
            out.append(dict(kind="legacy_many", C=C, D=D, seed=seed))
    return out


def _extra_floor(op, s):
    return 2.0**-70 * s * s if tuple(op) == ("floor", 6) else None


def _build(case, s, o):
    ap = c17._Apply(s, o)
    m = c17._start(case["start"], s, o)
    for op in case["ops"]:
        op = tuple(op)
        if op == ("floor", 6):
            m.variance_thresholds = 2.0**-70 * s * s
            m.variances = np.array([[2.0**-60, 1.0], [0.5, 2.0**-65]]) * s * s
        else:
            m = ap(m, op)
    m.map_relevance_factor, m.map_alpha = 4, 0.5  # defaults: the file does not record them
    m.max_fitting_steps = case["cap"]
    m.convergence_threshold = case["thr"]
    m.update_means, m.update_variances, m.update_weights = [bool(v) for v in case["sw"]]
    return m


def _eq(a, b):
    a, b = np.asarray(a), np.asarray(b)
    return a.shape == b.shape and np.array_equal(a, b)


def _same_setting(a, b):
    if a is None or b is None:
        return a is None and b is None
    return bool(a == b)


def _dump(path):
    import h5py

    out = {}
    with h5py.File(path, "r") as f:
        out["@attrs"] = {k: (v if isinstance(v, str) else str(v)) for k, v in f.attrs.items()}

        def visit(name, obj):
            if isinstance(obj, h5py.Dataset):
                v = obj[()]
                out[name] = v

        f.visititems(visit)
    return out


def _machine_case(case, c, tmp):
    import h5py

    from bob.learn.em import GMMMachine

    s, o = affine(case["seed"])
    A = c17._alph(s, o)
    X, P = A[4], A[5]
    g = _build(case, s, o)
    ubm = g.ubm
    tags = dict(trainer=g.trainer)
    snap = copy.deepcopy(g)

    def compare(h, what):
        ok = True
        for nm in ("weights", "means", "variances"):
            ok &= c.check(_eq(getattr(h, nm), getattr(g, nm)), "bit_identical", lambda: f"{what}: {nm} {np.asarray(getattr(h, nm)).tolist()} != saved {np.asarray(getattr(g, nm)).tolist()}", tags)
        ok &= c.check(_eq(np.broadcast_to(np.asarray(h.variance_thresholds, float), (2, 2)), np.broadcast_to(np.asarray(g.variance_thresholds, float), (2, 2))),
                      "bit_identical", lambda: f"{what}: variance_thresholds {np.asarray(h.variance_thresholds).tolist()} != saved {np.asarray(g.variance_thresholds).tolist()}", tags)
        if not ok:
            return False
        c.check(bool(h == g) and bool(g == h), "package_equality", f"{what}: reloaded machine is not == the saved one", tags)
        c.check(_eq(h.log_likelihood(P), g.log_likelihood(P)), "scores", f"{what}: log_likelihood differs after reload", tags)
        return True

    def settings(h, what):
        c.check(h.trainer == g.trainer and isinstance(h.trainer, str), "settings", f"{what}: trainer {h.trainer!r} != {g.trainer!r}", tags)
        c.check(_same_setting(h.max_fitting_steps, g.max_fitting_steps), "settings", f"{what}: max_fitting_steps {h.max_fitting_steps!r} != {g.max_fitting_steps!r}", tags)
        c.check(_same_setting(h.convergence_threshold, g.convergence_threshold), "settings", f"{what}: convergence_threshold {h.convergence_threshold!r} != {g.convergence_threshold!r}", tags)
        for nm in ("update_means", "update_variances", "update_weights"):
            c.check(bool(getattr(h, nm)) == bool(getattr(g, nm)), "settings", f"{what}: {nm} {getattr(h, nm)!r} != {getattr(g, nm)!r}", tags)
        c.check((h.ubm is None) == (g.ubm is None), "settings", f"{what}: ubm presence differs", tags)

    # round trips through a path
    cur = g
    paths = []
    for r in range(3):
        p = os.path.join(tmp, f"m{r}.h5")
        cur.save(p)
        paths.append(p)
        cur = GMMMachine.from_hdf5(p, ubm=ubm)
        c.transitions += 2
        if not compare(cur, f"round trip {r + 1} via path"):
            return
        settings(cur, f"round trip {r + 1} via path")
    # re-saved file equals the first file dataset by dataset
    d0, d2 = _dump(paths[0]), _dump(paths[2])
    c.check(sorted(d0) == sorted(d2), "resave", f"datasets differ: {sorted(d0)} vs {sorted(d2)}", tags)
    for k in d0:
        if k in d2 and k != "@attrs":
            c.check(_eq(d0[k], d2[k]), "resave", f"dataset {k} differs between the first and the third file", tags)
    c.check(d0.get("@attrs") == d2.get("@attrs"), "resave", "file attributes differ", tags)
    # through open files
    p = os.path.join(tmp, "open.h5")
    f = h5py.File(p, "w")
    g.save(f)
    f.close()
    f = h5py.File(p, "r")
    h = GMMMachine.from_hdf5(f, ubm=ubm)
    f.close()
    c.transitions += 2
    compare(h, "open file")
    settings(h, "open file")
    # load() into an existing object of another shape
    for shape in ((3, 1), (2, 2), (1, 4)):
        if g.trainer == "map":
            if shape[0] != 2:
                continue
            tgt = GMMMachine(2, trainer="map", ubm=ubm)
        else:
            tgt = GMMMachine(shape[0])
            tgt.means = np.zeros(shape) + 7.0
            tgt.variances = np.ones(shape) * 3.0
        f = h5py.File(paths[0], "r")
        tgt.load(f)
        f.close()
        c.transitions += 1
        compare(tgt, f"load() into a {shape} machine")
        settings(tgt, f"load() into a {shape} machine")
    # load() into machines of the SAME shape whose current arrays are (i) read-only, (ii) one array object shared by two
    # targets that then load different files: a loaded machine owns what it read
    alt = copy.deepcopy(g)
    alt.means = np.asarray(g.means, float) + 1.0
    palt = os.path.join(tmp, "alt.h5")
    alt.save(palt)

    def target(mu, var, w):
        t_ = GMMMachine(2, trainer="map", ubm=ubm) if g.trainer == "map" else GMMMachine(2)
        t_.weights, t_.means, t_.variances = w, mu, var
        return t_

    ro = [np.zeros((2, 2)) + 7.0, np.ones((2, 2)) * 3.0, np.array([0.5, 0.5])]
    for a_ in ro:
        a_.setflags(write=False)
    tgt = target(*ro)
    try:
        tgt.load(paths[0])
        compare(tgt, "load() into a machine holding read-only arrays")
    except Exception as e:  # noqa: BLE001
        c.check(False, "bit_identical", f"load() into a machine holding read-only arrays raises {e!r}", tags)
    sh = [np.zeros((2, 2)) + 7.0, np.ones((2, 2)) * 3.0, np.array([0.5, 0.5])]
    t1, t2 = target(*sh), target(*sh)
    t1.load(paths[0])
    t2.load(palt)
    compare(t1, "load() into one of two machines that were started from the same array objects (the other loaded another file afterwards)")
    c.check(_eq(t2.means, alt.means), "bit_identical", "second of two machines started from the same array objects: means differ from its file", tags)
    c.transitions += 3
    # load() into an existing machine of the *other* trainer kind (it has the UBM), then train both further
    if ubm is not None or True:
        u2 = ubm
        if u2 is None:
            u2 = GMMMachine(2, weights=np.asarray(g.weights, float).copy())
            u2.means, u2.variances = np.asarray(g.means, float) + 0.5, np.asarray(g.variances, float) * 2.0
        other = GMMMachine(2, ubm=u2) if g.trainer == "map" else GMMMachine(2, trainer="map", ubm=u2)
        f = h5py.File(paths[0], "r")
        other.load(f)
        f.close()
        c.transitions += 1
        if compare(other, "load() into a machine of the other trainer kind"):
            c.check(other.trainer == g.trainer, "settings", f"load() into a machine of the other trainer kind: trainer {other.trainer!r} != {g.trainer!r}", tags)
            a2, b2 = copy.deepcopy(g), other
            for mm in (a2, b2):
                mm.max_fitting_steps, mm.convergence_threshold = 2, None
                mm.update_means, mm.update_variances, mm.update_weights = True, False, True
            if g.trainer == "map" or a2.ubm is None:
                a2.fit(X.copy())
                b2.fit(X.copy())
                c.transitions += 2
                for nm in ("weights", "means", "variances"):
                    c.close(np.asarray(getattr(b2, nm), float), np.asarray(getattr(a2, nm), float), "trains_identically",
                            f"{nm} after further training of a machine that was load()ed into an object of the other trainer kind", tags, rtol=1e-12)
    # behaviour: train the original and the reloaded object further, they must agree
    a, b = copy.deepcopy(g), GMMMachine.from_hdf5(paths[0], ubm=ubm)
    if a.max_fitting_steps is None:
        a.convergence_threshold = b.convergence_threshold = max(float(a.convergence_threshold), 1e-3)
    if a.max_fitting_steps == 200:
        a.max_fitting_steps = b.max_fitting_steps = 3
    c.check(_same_setting(a.max_fitting_steps, b.max_fitting_steps) and _same_setting(a.convergence_threshold, b.convergence_threshold), "settings", "settings differ before further training", tags)
    a.fit(X.copy())
    b.fit(X.copy())
    c.transitions += 2
    for nm in ("weights", "means", "variances"):
        c.close(np.asarray(getattr(b, nm), float), np.asarray(getattr(a, nm), float), "trains_identically",
                f"{nm} after further training of the reloaded machine vs the original", tags, rtol=1e-12)
    # the saved object itself is untouched by saving
    for nm in ("weights", "means", "variances"):
        c.check(_eq(getattr(g, nm), getattr(snap, nm)), "save_pure", f"save() modified {nm}", tags)
    # legacy layout of the same state
    pl = os.path.join(tmp, "legacy.h5")
    thr = np.broadcast_to(np.asarray(g.variance_thresholds, float), (2, 2))
    with h5py.File(pl, "w") as f:
        f["m_n_gaussians"] = np.array([2], dtype=np.int64)
        f["m_n_inputs"] = np.array([2], dtype=np.int64)
        f["m_weights"] = np.asarray(g.weights, float).reshape(1, 2)
        for i in range(2):
            grp = f.create_group(f"m_gaussians{i}")
            grp["m_mean"] = np.asarray(g.means, float)[i]
            grp["m_variance"] = np.asarray(g.variances, float)[i]
            grp["m_variance_thresholds"] = thr[i]
    hl = GMMMachine.from_hdf5(pl, ubm=ubm)
    c.transitions += 1
    compare(hl, "legacy-format file")


def _stats_case(case, c, tmp):
    import h5py

    from bob.learn.em import GMMStats

    C, D = case["shape"]
    s, o = affine(case["seed"])
    g = GMMStats(C, D)
    base = np.arange(C * D, dtype=float).reshape(C, D)
    pat = case["pat"]
    if pat == 0:
        pass  # all zeros, t = 0
    elif pat == 1:
        g.t, g.n, g.sum_px, g.sum_pxx, g.log_likelihood = 7, np.arange(1, C + 1, dtype=float), base + 1, base * base + 2, -12.5
    elif pat == 2:
        g.t, g.n, g.sum_px, g.sum_pxx, g.log_likelihood = 3, np.full(C, 1 / 3), base / 3 - 0.1, base / 7 + 0.3, -1.0 / 3
    elif pat == 3:
        g.t, g.n, g.sum_px, g.sum_pxx, g.log_likelihood = 2**40, np.full(C, 2.0**40 / C), base * 2.0**30, base * 2.0**60, -1e15
    elif pat == 4:
        g.t, g.n, g.sum_px, g.sum_pxx, g.log_likelihood = 1, np.eye(1, C)[0], -base, base * 0, 5e-324
    elif pat == 5:
        g.t, g.n, g.sum_px, g.sum_pxx, g.log_likelihood = 5, np.linspace(0, 5, C), base * s + o, (base * s + o) ** 2, -745.13321910194122
    else:
        g.t, g.n, g.sum_px, g.sum_pxx, g.log_likelihood = 4, np.full(C, 4.0 / C), base[::-1].copy(), np.asfortranarray(base + 0.5), 0.0
    tags = dict(pat=pat)

    def compare(h, what):
        ok = c.check(h.n_gaussians == C and h.n_features == D and np.asarray(h.n).shape == (C,) and np.asarray(h.sum_px).shape == (C, D) and np.asarray(h.sum_pxx).shape == (C, D),
                     "stats_shape", f"{what}: shapes differ", tags)
        if not ok:
            return
        c.check(int(h.t) == int(g.t) and float(h.log_likelihood) == float(g.log_likelihood) and _eq(h.n, g.n) and _eq(h.sum_px, g.sum_px) and _eq(h.sum_pxx, g.sum_pxx),
                "stats_bit_identical", lambda: f"{what}: t={h.t} ll={h.log_likelihood!r} n={np.asarray(h.n).tolist()} vs t={g.t} ll={g.log_likelihood!r} n={np.asarray(g.n).tolist()}", tags)
        c.check(bool(h == g) and bool(g == h), "stats_package_equality", f"{what}: not == the saved statistics", tags)

    cur = g
    for r in range(3):
        p = os.path.join(tmp, f"s{r}.h5")
        cur.save(p)
        cur = GMMStats.from_hdf5(p)
        c.transitions += 2
        compare(cur, f"round trip {r + 1} via path")
    d0, d2 = _dump(os.path.join(tmp, "s0.h5")), _dump(os.path.join(tmp, "s2.h5"))
    c.check(sorted(d0) == sorted(d2) and all(_eq(d0[k], d2[k]) for k in d0 if k != "@attrs" and k in d2), "stats_resave", "re-saved statistics file differs", tags)
    p = os.path.join(tmp, "so.h5")
    f = h5py.File(p, "w")
    g.save(f)
    f.close()
    f = h5py.File(p, "r")
    h = GMMStats.from_hdf5(f)
    f.close()
    compare(h, "open file")
    # every other shape (up to 24 x 8) holding the same number of values: same storage size, different layout
    twins = [((c2, d2), float) for c2 in range(1, 25) for d2 in range(1, 9) if (c2, d2) != (C, D) and c2 * (1 + 2 * d2) == C * (1 + 2 * D)]
    c.count("same_size_other_shape_targets", len(twins))
    for shape, dt in [((C, D), float), ((C + 1, D), float), ((1, D + 2), float), ((C, D), np.float32), ((C, D), np.int64), ((D, C), float)] + twins:
        tgt = GMMStats(*shape)
        tgt.n = (tgt.n + 9.0).astype(dt)  # a container that previously held values of another precision / type
        tgt.sum_px = tgt.sum_px.astype(dt)
        tgt.sum_pxx = (tgt.sum_pxx + 1).astype(dt)
        tgt.t = 99
        f = h5py.File(p, "r")
        tgt.load(f)
        f.close()
        c.transitions += 1
        compare(tgt, f"load() into {shape} statistics")
        try:
            pooled = tgt + g  # the loaded object is usable like the saved one
            c.check(_eq(pooled.n, np.asarray(g.n, float) * 2), "stats_shape", f"load() into {shape} statistics, then pooled with the original", tags)
        except Exception as e:  # noqa: BLE001
            c.check(False, "stats_shape", f"load() into {shape} statistics: pooling with the original raises {e!r}", tags)
    # legacy layout
    pl = os.path.join(tmp, "slegacy.h5")
    with h5py.File(pl, "w") as f:
        f["n_gaussians"] = np.int64(C)
        f["n_inputs"] = np.int64(D)
        f["log_liklihood"] = float(g.log_likelihood)
        f["T"] = np.int64(g.t)
        f["n"] = np.asarray(g.n, float).reshape(1, C)
        f["sumPx"] = np.asarray(g.sum_px, float)
        f["sumPxx"] = np.asarray(g.sum_pxx, float)
    compare(GMMStats.from_hdf5(pl), "legacy-format statistics file")


def _legacy_many_case(case, c, tmp):
    """Legacy and current files of one machine with many components (group names m_gaussians10.. sort before m_gaussians2)."""
    import h5py

    from bob.learn.em import GMMMachine

    C, D = case["C"], case["D"]
    s, o = affine(case["seed"])
    g = GMMMachine(C, weights=(np.arange(1, C + 1, dtype=float) / (C * (C + 1) / 2)))
    g.means = (np.arange(C * D, dtype=float).reshape(C, D) * 1.5 - 3.0) * s + o
    thr = (0.125 + 0.0625 * (np.arange(C * D).reshape(C, D) % 3)) * s * s
    g.variance_thresholds = thr
    g.variances = (0.25 + 0.5 * (np.arange(C * D).reshape(C, D) % 5)) * s * s
    P = (np.arange(4 * D, dtype=float).reshape(4, D) * 2.0 - 1.0) * s + o
    pc, pl = os.path.join(tmp, "cur.h5"), os.path.join(tmp, "leg.h5")
    g.save(pc)
    with h5py.File(pl, "w") as f:
        f["m_n_gaussians"] = np.array([C], dtype=np.int64)
        f["m_n_inputs"] = np.array([D], dtype=np.int64)
        f["m_weights"] = np.asarray(g.weights, float).reshape(1, C)
        for i in range(C):
            grp = f.create_group(f"m_gaussians{i}")
            grp["m_mean"] = np.asarray(g.means, float)[i]
            grp["m_variance"] = np.asarray(g.variances, float)[i]
            grp["m_variance_thresholds"] = thr[i]
    cur = GMMMachine.from_hdf5(pc)
    tags = dict(trainer="legacy_many")
    for how in ("path", "open file", "load"):
        if how == "path":
            leg = GMMMachine.from_hdf5(pl)
        elif how == "open file":
            f = h5py.File(pl, "r")
            leg = GMMMachine.from_hdf5(f)
            f.close()
        else:
            leg = GMMMachine(2)
            f = h5py.File(pl, "r")
            leg.load(f)
            f.close()
        c.transitions += 1
        for nm in ("weights", "means", "variances", "variance_thresholds"):
            c.check(_eq(np.asarray(getattr(leg, nm), float), np.asarray(getattr(cur, nm), float)), "legacy_equals_current",
                    lambda: f"legacy file with {C} components read via {how}: {nm} differs from the current-format counterpart", tags)
        c.check(_eq(leg.log_likelihood(P), g.log_likelihood(P)), "legacy_equals_current", f"legacy file with {C} components read via {how}: scores differ", tags)


def run_case(case):
    c = Ctx()
    base = "/dev/shm" if os.path.isdir("/dev/shm") and os.access("/dev/shm", os.W_OK) else None
    tmp = tempfile.mkdtemp(prefix="c18_", dir=base)
    try:
        if case["kind"] == "legacy_many":
            _legacy_many_case(case, c, tmp)
            nontrivial, sig = case["C"] >= 2, "legacy|%d|%d" % (case["C"], case["D"])
        elif case["kind"] == "machine":
            _machine_case(case, c, tmp)
            nontrivial = bool(case["ops"]) or case["cap"] != 200 or case["thr"] != 1e-5
            sig = "%s|%r|%r|%r|%r" % (case["start"], case["ops"], case["cap"], case["thr"], case["sw"])
        else:
            _stats_case(case, c, tmp)
            nontrivial = case["pat"] != 0
            sig = "stats|%d|%r" % (case["pat"], case["shape"])
    finally:
        shutil.rmtree(tmp, ignore_errors=True)
    c.states = 1
    c.traces = c.transitions
    return c.result(nontrivial=nontrivial, sig=sig)
