"""C17 - a GMM's likelihood reflects its current visible parameters, whatever its history.

Explicit-state BFS (mc/bfs.py). Case = start state x first operation; the worker explores every sequence of the
remaining depth from there. Operations: weight / mean / variance / floor setters (scalar, per-feature, per-component;
raising and lowering), one EM step for each of the 8 switch sets, deepcopy, pickle round trip, HDF5 save ->
from_hdf5, load into self. Invariant in every state: likelihoods and statistics equal those of a machine freshly built
from the visible weights/means/variances/floors (and the independent oracle); variances >= floors.
"""
import copy
import io
import pickle

import numpy as np

from mc import bfs
from mc import oracle_gmm as og
from mc.util import Ctx, affine

PROPERTY = "C17"
RULE = (
    "explicit-state BFS over public-operation histories: start states {configured ML machine, ML machine with per-component "
    "floors, MAP machine adapted from a prior, machine restored from HDF5} x every sequence of <= depth operations from a "
    "menu of 38 (5 weight assignments incl. a list and a pruned component, 2 mean arrays, 3 variance arrays (some below the floors), 6 floor "
    "assignments (scalar low/high, per-feature, per-component low/high, default), 8 single EM steps (one per switch set), "
    "deepcopy, pickle, HDF5 save->from_hdf5, load into self, one fit with 2 steps, training / re-configuring a shallow copy, handing the parameter arrays to another machine with higher floors, raising the floors of the prior afterwards, 4 assign / change in place / assign-the-same-object-again sequences, an M-step that raises half-way and is caught); states de-duplicated by the full object "
    "state; the invariant is evaluated on every transition. A case (start, first op) is non-trivial when its search reached "
    ">= 2 distinct states; distinct = distinct (start, first op)"
)
ASSUMPTIONS = [
    "C=2 components, D=2 features; value alphabets of the menu are fixed (affine re-labelling by VERIF_SEED)",
    "state key = all attributes of the machine (incl. cached normalisers and log-weights), so merging cannot hide a stale cache",
]
BUDGET = {"quick": 900, "thorough": 4 * 3600}
DEPTH = {"quick": 3, "thorough": 4}

OPS = (
    [("w", i) for i in range(5)]
    + [("mu", i) for i in range(2)]
    + [("var", i) for i in range(3)]
    + [("floor", i) for i in range(6)]
    + [("em", i) for i in range(8)]
    + [("deepcopy", 0), ("pickle", 0), ("hdf5", 0), ("load", 0), ("fit2", 0), ("sibling", 0), ("sibling", 1), ("sibling", 2), ("ubm_floor", 0),
       ("inplace", 0), ("inplace", 1), ("inplace", 2), ("inplace", 3), ("em_error", 0)]
)
STARTS = ["ml", "ml_matrix_floor", "map", "restored"]


def _alph(s, o):
    W = [np.array([0.5, 0.5]), np.array([0.125, 0.875]), np.array([0.75, 0.25]), [0.25, 0.75], np.array([1.0, 0.0])]  # the last one prunes a component
    MU = [np.array([[0.0, 1.0], [2.5, -3.0]]) * s + o, np.array([[10.0, 0.0], [-0.5, 2.5]]) * s + o]
    VAR = [np.array([[1.0, 4.0], [0.25, 1.0]]) * s * s, np.array([[2.0**-10, 1.0], [1.0, 2.0**10]]) * s * s,
           np.array([[0.5, 0.5], [2.0, 0.125]]) * s * s]
    FL = [2.0**-12 * s * s, 0.5 * s * s, np.array([0.125, 2.0]) * s * s, np.array([[2.0**-12, 0.5], [1.0, 2.0**-12]]) * s * s,
          np.array([[3.0, 0.25], [0.25, 3.0]]) * s * s, float(np.finfo(float).eps)]
    X = np.array([[0.0, 0.5], [1.0, 1.0], [2.5, -3.0], [2.0, -2.0], [9.0, 0.5], [0.5, 2.5]]) * s + o
    P = np.array([[0.0, 0.0], [2.5, -3.0], [1.0, 10.0], [64.0, -0.5]]) * s + o
    return W, MU, VAR, FL, X, P


def _start(name, s, o):
    from bob.learn.em import GMMMachine

    W, MU, VAR, FL, X, P = _alph(s, o)
    if name in ("ml", "ml_matrix_floor", "restored"):
        m = GMMMachine(2, weights=np.array([0.375, 0.625]), convergence_threshold=None, max_fitting_steps=1)
        m.means = MU[0].copy()
        if name == "ml_matrix_floor":
            m.variance_thresholds = FL[3].copy()
        m.variances = VAR[0].copy()
        if name == "restored":
            import h5py

            f = h5py.File("c17-start", "w", driver="core", backing_store=False)
            m.save(f)
            m = GMMMachine.from_hdf5(f)
            f.close()
        return m
    u = GMMMachine(2, weights=np.array([0.25, 0.75]))
    u.means = MU[1].copy()
    u.variances = VAR[2].copy()
    m = GMMMachine(2, trainer="map", ubm=u, convergence_threshold=None, max_fitting_steps=1, map_relevance_factor=2.0)
    return m


def cases(tier, seed):
    return [dict(start=st, first=list(op), depth=DEPTH[tier], seed=seed) for st in STARTS for op in OPS]


class _Apply:
    def __init__(self, s, o):
        self.A = _alph(s, o)

    def __call__(self, m, op):
        from bob.learn.em import GMMMachine
        import h5py

        W, MU, VAR, FL, X, P = self.A
        kind, i = op
        if kind == "w":
            m.weights = copy.deepcopy(W[i])
        elif kind == "mu":
            m.means = MU[i].copy()
        elif kind == "var":
            m.variances = VAR[i].copy()
        elif kind == "floor":
            m.variance_thresholds = copy.deepcopy(FL[i])
        elif kind in ("em", "fit2"):
            if kind == "em":
                m.update_means, m.update_variances, m.update_weights = bool(i & 4), bool(i & 2), bool(i & 1)
                m.max_fitting_steps = 1
            else:
                m.update_means, m.update_variances, m.update_weights = True, True, True
                m.max_fitting_steps = 2
            m.fit(X.copy())
        elif kind == "sibling":
            # a shallow copy of the machine is trained / re-configured; the machine itself must not be affected
            sib = copy.copy(m)
            if i == 0:
                sib.update_means, sib.update_variances, sib.update_weights = True, True, True
                sib.max_fitting_steps = 1
                sib.fit(X.copy())
            elif i == 1:
                sib.variance_thresholds = copy.deepcopy(FL[4])
                sib.variances = VAR[1].copy()
                sib.weights = W[1].copy()
            else:
                # the machine's parameters are handed (the very arrays the getters return) to another machine with higher floors
                other = GMMMachine(2)
                other.variance_thresholds = copy.deepcopy(FL[4])
                other.means = m.means
                other.variances = m.variances
                other.weights = m.weights
                other.update_means, other.update_variances, other.update_weights = True, True, True
                other.max_fitting_steps = 1
                other.fit(X.copy())
        elif kind == "inplace":
            # the caller keeps the array it assigned, changes it in place and assigns the very same object again
            if i == 0:
                a = np.array(np.broadcast_to(np.asarray(FL[0], float), (2,)))
                m.variance_thresholds = a
                a[...] = np.asarray(FL[2], float)
                m.variance_thresholds = a
            elif i == 1:
                a = np.array(W[0], float)
                m.weights = a
                a[...] = np.asarray(W[1], float)
                m.weights = a
            elif i == 2:
                a = np.array(MU[0], float)
                m.means = a
                a[...] = MU[1]
                m.means = a
            else:
                a = np.array(VAR[0], float)
                m.variances = a
                a[...] = VAR[2]
                m.variances = a
        elif kind == "em_error":
            # an M-step that fails half-way (statistics of another feature dimension); the caller catches the error and goes on
            from bob.learn.em import GMMStats
            from bob.learn.em import gmm as gmm_module

            bad = GMMStats(2, 3)
            bad.t, bad.n, bad.sum_px, bad.sum_pxx, bad.log_likelihood = 4, np.array([1.5, 2.5]), np.ones((2, 3)), np.full((2, 3), 2.0), -3.0
            m.update_means, m.update_variances, m.update_weights = True, True, True
            try:
                gmm_module.m_step([bad], m)
            except Exception:  # noqa: BLE001
                pass
        elif kind == "ubm_floor":
            # the prior of a MAP machine gets higher floors afterwards: the machine's own floors and variances stay its own
            if m.ubm is not None:
                m.ubm.variance_thresholds = copy.deepcopy(FL[1])
        elif kind == "deepcopy":
            m = copy.deepcopy(m)
        elif kind == "pickle":
            m = pickle.loads(pickle.dumps(m))
        elif kind in ("hdf5", "load"):
            f = h5py.File("c17-mem", "w", driver="core", backing_store=False)
            try:
                m.save(f)
                if kind == "hdf5":
                    m = GMMMachine.from_hdf5(f, ubm=m.ubm)
                else:
                    tgt = GMMMachine(2, trainer=m.trainer, ubm=m.ubm) if m.ubm is not None else GMMMachine(2)
                    tgt.means = MU[1].copy() + 1.0
                    tgt.variances = VAR[2].copy()
                    tgt.load(f)
                    m = tgt
            finally:
                f.close()
        return m


def run_case(case):
    from bob.learn.em import GMMMachine

    c = Ctx()
    s, o = affine(case["seed"])
    A = _alph(s, o)
    P = A[5]
    apply_op = _Apply(s, o)
    scale = float(np.abs(P).max()) ** 2

    def same_arr(a, b):
        """equal up to 1e-12 relative; infinities (a pruned component has log-weight -inf) must coincide exactly"""
        a, b = np.asarray(a, float), np.asarray(b, float)
        if a.shape != b.shape:
            return False
        fin = np.isfinite(b)
        if not np.array_equal(np.isfinite(a), fin) or not np.array_equal(a[~fin], b[~fin]):
            return False
        return bool(np.all(np.abs(a[fin] - b[fin]) <= 1e-12 * np.maximum(1.0, np.abs(b[fin]))))

    def invariant(m, hist):
        tags = dict(last=hist[-1][0] if hist else "start")
        w = np.asarray(m.weights, float)
        mu = np.asarray(m.means, float)
        var = np.asarray(m.variances, float)
        thr = m.variance_thresholds
        c.check(bool(np.all(var >= np.broadcast_to(np.asarray(thr, float), var.shape))), "floors",
                lambda: f"variances {var.tolist()} below floors {np.asarray(thr).tolist()} after {hist}", tags)
        fresh = GMMMachine(2, weights=copy.deepcopy(m.weights))
        fresh.means = mu.copy()
        fresh.variance_thresholds = copy.deepcopy(thr)
        fresh.variances = var.copy()
        ll, lf = np.asarray(m.log_likelihood(P)), np.asarray(fresh.log_likelihood(P))
        c.check(same_arr(ll, lf), "fresh_loglik",
                lambda: f"log_likelihood {ll.tolist()} differs from a fresh machine with the same visible parameters {lf.tolist()} after {hist}", tags)
        c.close(ll, og.ll(P, w, mu, var), "oracle_loglik", f"log_likelihood vs definition on the visible parameters after {hist}", tags)
        lw, lwf = np.asarray(m.log_weighted_likelihood(P)), np.asarray(fresh.log_weighted_likelihood(P))
        c.check(same_arr(lw, lwf), "fresh_lwl",
                lambda: f"log_weighted_likelihood differs from a fresh machine after {hist}", tags)
        st, sf = m.acc_stats(P), fresh.acc_stats(P)
        same = (st.t == sf.t and np.allclose(st.n, sf.n, rtol=1e-12, atol=1e-300) and np.allclose(st.sum_px, sf.sum_px, rtol=1e-12, atol=1e-12 * scale)
                and np.allclose(st.sum_pxx, sf.sum_pxx, rtol=1e-12, atol=1e-12 * scale) and abs(st.log_likelihood - sf.log_likelihood) <= 1e-12 * max(1.0, abs(sf.log_likelihood)))
        c.check(bool(same), "fresh_stats", lambda: f"acc_stats differs from a fresh machine after {hist}", tags)

    root = _start(case["start"], s, o)
    first = tuple(case["first"])
    invariant(root, [])
    r1 = apply_op(copy.deepcopy(root), first)
    c.transitions += 1
    S = bfs.bfs(r1, OPS, apply_op, invariant, case["depth"] - 1, root_history=[first])
    c.states = S.states
    c.transitions += S.transitions
    c.traces = c.transitions
    c.count("bfs_states", S.states)
    c.count("bfs_transitions", S.transitions)
    c.count("depth_completed", S.depth_done + 1)
    return c.result(nontrivial=S.states >= 2, sig="%s|%r" % (case["start"], first))
