"""C11 - ISV/JFA scores are channel-compensated linear scores, the same via every entry point.

Case = UBM x (U, V, D) x client factors x probe set. Inside: score vs the reference (posterior mean of x from the pooled
probe statistics, frame-normalised linear score with the UBM means shifted by U x), list vs pooled probe, and every
array-level entry point against the statistics-level one (score_using_array, enroll_using_array, fit_using_array,
estimate_ux = U estimate_x, ISVMachine.transform).
"""
import copy
import itertools

import numpy as np

from mc import oracle_fa as ofa
from mc.util import Ctx, affine, sync_dask

PROPERTY = "C11"
RULE = (
    "complete product: 3 UBMs (C<=3, D<=2) x 4 subspace sets (U, V, D entries from {-1, 0, 1/2, 2}, ranks 1-2, D of order 1 "
    "and 1e-10) x 3 client-factor sets x 4 probe sets (1-3 statistics, fractional counts, arrays of frames) x {ISV, JFA}. "
    "Non-trivial: U x of the probe is non-zero (the channel compensation matters); distinct = distinct case"
)
ASSUMPTIONS = ["machines are configured through the public U / V / D setters; trained subspaces are exercised in C09/C12"]
BUDGET = {"quick": 600, "thorough": 3600}

UBMS = [
    dict(mu=[[0.0, 1.0], [4.0, 4.5]], var=[[1.0, 2.0], [0.5, 4.0]], w=[0.375, 0.625]),
    dict(mu=[[0.0], [4.0], [-3.0]], var=[[1.0], [0.25], [2.0]], w=[0.5, 0.25, 0.25]),
    dict(mu=[[2.5, -3.0]], var=[[0.5, 2.0]], w=[1.0]),
]
ENT = [-1.0, 0.0, 0.5, 2.0]
FRAMES = [
    [[0.0, 0.5], [1.0, 1.0], [4.5, 4.0]],
    [[3.5, 5.0], [4.0, 4.0]],
    [[-3.0, 2.0], [2.0, 3.0], [9.0, 0.0], [0.5, 0.5]],
    [[0.25, 1.5]],
]


def cases(tier, seed):
    out = []
    for kind in ("isv", "jfa"):
        for u in range(len(UBMS)):
            for sub in (range(5) if tier == "quick" else range(12)):
                for fac in (range(3) if tier == "quick" else range(6)):
                    for pr in range(4):
                        out.append(dict(kind=kind, ubm=u, sub=sub, fac=fac, probe=pr, seed=seed))
    return out


def _ubm(u, s, o):
    from bob.learn.em import GMMMachine

    g = GMMMachine(len(u["w"]), weights=np.array(u["w"], float))
    g.means = np.array(u["mu"], float) * s + o
    g.variances = np.array(u["var"], float) * s * s
    return g


def _pattern(shape, k, s):
    n = int(np.prod(shape))
    return np.array([ENT[(3 * i + k + (i * i) % 5) % 4] for i in range(n)], float).reshape(shape) * s


def _machine(case, ubm, s):
    from bob.learn.em import ISVMachine, JFAMachine

    C, D = ubm.means.shape
    sub = case["sub"]
    rU = 1 + sub % 2 + (1 if sub >= 8 else 0)
    if sub == 4:
        rU = C * D + 1  # more channel factors than supervector entries
    rV = 1 + (sub // 2) % 2
    if case["kind"] == "isv":
        m = ISVMachine(r_U=rU, ubm=ubm, em_iterations=1, enroll_iterations=2)
    else:
        m = JFAMachine(r_U=rU, r_V=rV, ubm=ubm, em_iterations=1, enroll_iterations=2)
        m.V = _pattern((C * D, rV), sub + 1, s)
    m.U = _pattern((C * D, rU), sub, s)
    if sub % 4 == 3:
        m.D = np.full(C * D, 1e-10 * s)
    elif sub % 4 == 2:
        dd = _pattern((C * D,), sub + 2, s)
        m.D = np.where(dd == 0, 0.75 * s, dd)  # signed entries (the pattern contains -1): D is a diagonal matrix, not a scale
    else:
        m.D = np.abs(_pattern((C * D,), sub + 2, s)) + 0.5 * s
    return m


def run_case(case):
    sync_dask()
    c = Ctx()
    s, o = affine(case["seed"])
    ubm = _ubm(UBMS[case["ubm"]], s, o)
    C, D = ubm.means.shape
    m = _machine(case, ubm, s)
    um, uv = np.asarray(ubm.means, float), np.asarray(ubm.variances, float)
    U = np.asarray(m.U, float)
    Dv = np.asarray(m.D, float)
    fac = case["fac"]
    z = _pattern((C * D,), fac, 1.0) * (0.5 + fac)
    tags = dict(kind=case["kind"])
    if case["kind"] == "jfa":
        V = np.asarray(m.V, float)
        y = _pattern((V.shape[1],), fac + 1, 1.0)
        model = (y, z)
        client = (um.ravel() + V @ y + Dv * z).reshape(C, D)
    else:
        model = z
        client = (um.ravel() + Dv * z).reshape(C, D)
    frames = [np.array(f, float)[:, :D] * s + o for f in FRAMES]
    pr = case["probe"]
    arrays = [frames[0]] if pr == 0 else (frames[:3] if pr == 1 else (frames[1:3] if pr == 2 else [frames[3], frames[0]]))
    stats = [ubm.acc_stats(a) for a in arrays]
    if pr == 2:  # fractional counts
        for st in stats:
            st.n, st.sum_px, st.sum_pxx = st.n * 0.5, st.sum_px * 0.5, st.sum_pxx * 0.5
    pooledN = sum(np.asarray(st.n, float) for st in stats)
    pooledF = sum(np.asarray(st.sum_px, float) for st in stats)
    pooledT = sum(int(st.t) for st in stats)
    scale = 1e3 * (float(np.abs(um).max()) + 1.0)
    # reference
    x = ofa.posterior_x(um, uv, U, pooledN, pooledF)
    Ux = (U @ x).reshape(C, D)
    want = ofa.linear_score(client, um, uv, pooledN, pooledF, pooledT, Ux, True)
    got = float(m.score(model, copy.deepcopy(stats)))
    c.transitions += 1
    c.close(got, want, "score", "score(model, probe) vs frame-normalised linear score with the UBM shifted by U x", tags, scale=scale, rtol=1e-8)
    # the same probe objects scored again (and by the other entry points below) must give the same score
    shared = copy.deepcopy(stats)
    s1 = float(m.score(model, shared))
    s2 = float(m.score(model, shared))
    c.check(s1 == s2, "rescore", f"scoring the same probe objects twice gives {s1!r} then {s2!r}", tags)
    c.close(s2, want, "rescore", "second score of the same probe objects vs reference", tags, scale=scale, rtol=1e-8)
    c.transitions += 2
    # history: the enrolled factors are updated in place (same array objects) and scored again
    if case["kind"] == "jfa":
        y2, z2 = np.array(y, float), np.array(z, float)
        model2 = (y2, z2)
        m.score(model2, copy.deepcopy(stats))
        y2 *= -0.5
        z2 += 0.25
        client2 = (um.ravel() + V @ y2 + Dv * z2).reshape(C, D)
    else:
        z2 = np.array(z, float)
        model2 = z2
        m.score(model2, copy.deepcopy(stats))
        z2 *= -0.5
        client2 = (um.ravel() + Dv * z2).reshape(C, D)
    want2 = ofa.linear_score(client2, um, uv, pooledN, pooledF, pooledT, Ux, True)
    c.close(float(m.score(model2, copy.deepcopy(stats))), want2, "score_after_model_update", "score after the enrolled factors were updated in place", tags, scale=scale, rtol=1e-8)
    c.transitions += 2
    # estimate_x / estimate_ux
    ex = np.asarray(m.estimate_x(copy.deepcopy(stats)), float)
    c.close(ex, x, "estimate_x", "estimate_x vs posterior mean given the pooled statistics", tags, rtol=1e-8, scale=1.0)
    eux = np.asarray(m.estimate_ux(copy.deepcopy(stats)), float)
    c.close(eux, U @ x, "estimate_ux", "estimate_ux vs U @ posterior mean", tags, rtol=1e-8, scale=float(np.abs(U).max()) + 1)
    c.transitions += 2
    # list of statistics == their sum
    if len(stats) > 1:
        pooled = stats[0]
        for st in stats[1:]:
            pooled = pooled + st
        g2 = float(m.score(model, [pooled]))
        c.close(g2, got, "list_vs_sum", "score of the pooled statistics vs score of the list", tags, rtol=1e-9, scale=scale * 1e-3)
        c.transitions += 1
    # array-level entry points (not for the fractional-count probe, which has no array form)
    if pr != 2:
        ga = float(m.score_using_array(model, [a.copy() for a in arrays]))
        c.close(ga, got, "score_using_array", "score_using_array vs score on the UBM statistics of the same arrays", tags, rtol=1e-10, scale=scale * 1e-3)
        e_arr = m.enroll_using_array(arrays[0].copy())
        e_st = m.enroll([ubm.acc_stats(arrays[0])])
        for a_, b_ in zip(e_arr if isinstance(e_arr, tuple) else (e_arr,), e_st if isinstance(e_st, tuple) else (e_st,)):
            c.close(np.asarray(a_, float), np.asarray(b_, float), "enroll_using_array", "enroll_using_array vs enroll on the UBM statistics", tags, rtol=1e-10, scale=1.0)
        c.transitions += 3
        # a probe that is one single frame, given as a 1-D vector / as a 1 x D array / next to a longer recording
        f1 = arrays[0][0].copy()
        st1 = ubm.acc_stats(f1.reshape(1, -1))
        want1 = float(m.score(model, [st1]))
        c.close(float(m.score_using_array(model, [f1.copy()])), want1, "score_using_array", "score_using_array on one frame given as a 1-D vector vs score on its statistics", tags,
                rtol=1e-10, scale=scale * 1e-3)
        c.close(float(m.score_using_array(model, [f1.reshape(1, -1).copy()])), want1, "score_using_array", "score_using_array on one frame given as a 1 x D array vs score on its statistics", tags,
                rtol=1e-10, scale=scale * 1e-3)
        want2 = float(m.score(model, [ubm.acc_stats(arrays[0]), st1]))
        c.close(float(m.score_using_array(model, [arrays[0].copy(), f1.copy()])), want2, "score_using_array", "score_using_array on a recording plus a single 1-D frame vs score on their statistics", tags,
                rtol=1e-10, scale=scale * 1e-3)
        c.transitions += 5
        if case["fac"] == 1:
            # a long recording (2500 frames, deterministic): array-level entry points vs statistics of the whole array
            base = np.vstack(frames[:3])
            k_ = np.arange(2500)
            long_x = base[k_ % len(base)] + ((k_ % 7) - 3.0)[:, None] * 0.125 * s
            st_long = ubm.acc_stats(long_x)
            c.close(float(m.score_using_array(model, [long_x.copy()])), float(m.score(model, [st_long])), "score_using_array", "score_using_array on 2500 frames vs score on their statistics", tags,
                    rtol=1e-9, scale=scale * 1e-3)
            el, es = m.enroll_using_array(long_x.copy()), m.enroll([st_long])
            for a_, b_ in zip(el if isinstance(el, tuple) else (el,), es if isinstance(es, tuple) else (es,)):
                c.close(np.asarray(a_, float), np.asarray(b_, float), "enroll_using_array", "enroll_using_array on 2500 frames vs enroll on their statistics", tags, rtol=1e-9, scale=1.0)
            if case["kind"] == "isv":
                c.close(np.asarray(m.transform(long_x.copy()), float), np.asarray(m.estimate_ux([st_long]), float), "transform", "ISVMachine.transform on 2500 frames", tags, rtol=1e-9,
                        scale=float(np.abs(U).max()) + 1)
            c.transitions += 5
        if case["kind"] == "isv":
            t = np.asarray(m.transform(arrays[0].copy()), float)
            c.close(t, np.asarray(m.estimate_ux([ubm.acc_stats(arrays[0])]), float), "transform", "ISVMachine.transform(X) vs estimate_ux([acc_stats(X)])", tags,
                    rtol=1e-10, scale=float(np.abs(U).max()) + 1)
            x1 = ofa.posterior_x(um, uv, U, np.asarray(ubm.acc_stats(arrays[0]).n), np.asarray(ubm.acc_stats(arrays[0]).sum_px))
            c.close(t, U @ x1, "transform", "ISVMachine.transform(X) vs U @ posterior mean", tags, rtol=1e-8, scale=float(np.abs(U).max()) + 1)
            c.transitions += 1
    # fit_using_array == fit on per-row statistics (each row is one session)
    if case["fac"] == 0 and case["probe"] == 0:
        from bob.learn.em import ISVMachine, JFAMachine

        Xall = np.vstack(frames[:3])
        yl = np.array([0, 1, 0, 1, 1, 0, 0, 1, 1])[: len(Xall)]

        def mk():
            if case["kind"] == "isv":
                return ISVMachine(r_U=1, ubm=ubm, em_iterations=2, random_state=0)
            return JFAMachine(r_U=1, r_V=1, ubm=ubm, em_iterations=2, random_state=0)

        a = mk().fit_using_array(Xall.copy(), yl.copy())
        b = mk().fit([ubm.acc_stats(r) for r in Xall], yl.copy())
        for nm in ("U", "V", "D"):
            c.close(np.asarray(getattr(a, nm), float), np.asarray(getattr(b, nm), float), "fit_using_array", f"{nm}: fit_using_array vs fit on per-row UBM statistics", tags, rtol=1e-10, scale=1.0)
        import dask.array as da

        d = mk().fit_using_array(da.from_array(Xall.copy(), chunks=(4, D)), yl.copy())
        for nm in ("U", "V", "D"):
            c.close(np.asarray(getattr(d, nm), float), np.asarray(getattr(b, nm), float), "fit_using_array", f"{nm}: fit_using_array(dask) vs fit on per-row UBM statistics", tags, rtol=1e-8, scale=1.0)
        c.transitions += 3
    c.traces = c.transitions
    sig = "%s|%d|%d|%d|%d" % (case["kind"], case["ubm"], case["sub"], case["fac"], case["probe"])
    return c.result(nontrivial=bool(np.abs(Ux).max() > 1e-9), sig=sig)
