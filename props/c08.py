"""C08 - linear scoring is the exact first-order log-likelihood ratio around the UBM.

Case = UBM x test-statistics set x model set. Inside: every presentation (machines / 3-D array / list of arrays / single
2-D array; statistics as list or single object; offsets none, (C,D), (N,C,D); normalisation on/off; UBM passed as
itself or through a MAP-adapted machine). Oracle: the formula with explicit loops; plus the algebraic clauses (zero for
the UBM, linearity, additivity, zero-frame) and the derivative identity against the real log_likelihood.
"""
import copy
import itertools

import numpy as np

from mc import oracle_fa as ofa
from mc.util import Ctx, affine

PROPERTY = "C08"
RULE = (
    "complete product: 5 UBMs (C<=3, D<=2, unequal variances, one far from the origin) x 5 statistics sets (from data: 1-3 objects incl. fractional "
    "counts; synthetic incl. a zero-frame object) x 4 model sets (1-3 models, the UBM itself, linear combinations) ; per case "
    "all presentations x offsets {none,(C,D),(N,C,D)} x normalisation x UBM-as {prior, MAP machine}. Non-trivial: the score "
    "matrix has >= 2 distinct non-zero entries; distinct = distinct case"
)
ASSUMPTIONS = ["derivative clause: central difference with h = 2^-12 along (model - UBM), compared within 1e-6 relative"]
BUDGET = {"quick": 600, "thorough": 3600}

UBMS = [
    dict(mu=[[0.0], [4.0]], var=[[1.0], [0.25]], w=[0.5, 0.5]),
    dict(mu=[[0.0, 1.0], [4.0, 4.5]], var=[[1.0, 2.0], [0.5, 4.0]], w=[0.375, 0.625]),
    dict(mu=[[-3.0, 2.5], [2.5, 2.5], [10.0, -0.5]], var=[[1.0, 0.25], [4.0, 1.0], [2.0, 8.0]], w=[0.25, 0.5, 0.25]),
    dict(mu=[[2.5, -3.0]], var=[[0.5, 2.0]], w=[1.0]),
    dict(mu=[[20000.0, -50000.0], [20004.0, -49995.5]], var=[[1.0, 2.0], [0.5, 4.0]], w=[0.375, 0.625], shift=[20000.0, -50001.0]),
]
SHIFT = [np.zeros(2)]
FRAMES = [
    [[0.0, 0.5], [1.0, 1.0], [4.5, 4.0]],
    [[3.5, 5.0], [4.0, 4.0]],
    [[-3.0, 2.0], [2.0, 3.0], [9.0, 0.0], [0.5, 0.5]],
]


def cases(tier, seed):
    msets = range(4) if tier == "quick" else range(10)
    return [dict(ubm=u, sset=ss, mset=ms, seed=seed) for u in range(len(UBMS)) for ss in range(5) for ms in msets]


def _ubm(u, s, o):
    from bob.learn.em import GMMMachine

    g = GMMMachine(len(u["w"]), weights=np.array(u["w"], float))
    g.means = np.array(u["mu"], float) * s + o
    g.variances = np.array(u["var"], float) * s * s
    return g


def _stats(ubm, ss, s, o):
    from bob.learn.em import GMMStats

    C, D = ubm.means.shape
    fr = [np.array(f, float)[:, :D] * s + o + SHIFT[0][:D] for f in FRAMES]
    if ss == 0:
        return [ubm.acc_stats(fr[0])]
    if ss == 1:
        return [ubm.acc_stats(f) for f in fr]
    if ss == 2:  # fractional counts
        out = []
        for f in fr[:2]:
            st = ubm.acc_stats(f)
            st.n, st.sum_px, st.sum_pxx, st.t = st.n * 0.5, st.sum_px * 0.5, st.sum_pxx * 0.5, 1
            out.append(st)
        return out
    if ss == 3:  # a statistics object without frames among others; frame counts held as numpy integers (as after an HDF5 round trip)
        out = [ubm.acc_stats(fr[1]), GMMStats(C, D), ubm.acc_stats(fr[2])]
        for st in out:
            st.t = np.int64(st.t)
        return out
    st = GMMStats(C, D)  # synthetic integers
    st.t = 5
    st.n = np.arange(1, C + 1, dtype=float)
    st.sum_px = (np.arange(C * D, dtype=float).reshape(C, D) - 1.0) * s + o * st.n[:, None]
    st.sum_pxx = st.sum_px**2
    return [st]


def _models(ubm, ms, s):
    m = np.asarray(ubm.means, float)
    C, D = m.shape
    d1 = (np.arange(C * D, dtype=float).reshape(C, D) % 3 - 1.0) * 0.5 * s
    d2 = np.cos(np.arange(C * D, dtype=float).reshape(C, D)).round(2) * s
    if ms == 0:
        return [m + d1]
    if ms == 1:
        return [m + d1, m + d2, m.copy()]
    if ms == 2:
        return [m + 2.0 * d1 - 0.5 * d2, m + d1, m + d2]
    if ms == 3:
        return [m.copy(), m - d2]
    # thorough tier: further deterministic offset patterns
    d3 = (np.arange(C * D, dtype=float).reshape(C, D) * (ms - 3) % 5 - 2.0) * 0.25 * s
    return [m + d3, m - 0.5 * d3 + d1, m + d2 * (ms - 3)]


def run_case(case):
    from bob.learn.em import GMMMachine, linear_scoring

    c = Ctx()
    s, o = affine(case["seed"])
    ubm = _ubm(UBMS[case["ubm"]], s, o)
    C, D = ubm.means.shape
    SHIFT[0] = np.array(UBMS[case["ubm"]].get("shift", [0.0, 0.0]), float) * s
    stats = _stats(ubm, case["sset"], s, o)
    models = _models(ubm, case["mset"], s)
    um, uv = np.asarray(ubm.means, float), np.asarray(ubm.variances, float)
    M, N = len(models), len(stats)
    off_cd = (np.arange(C * D, dtype=float).reshape(C, D) % 2 - 0.25) * s
    off_ncd = np.array([off_cd * (i + 1) * 0.5 for i in range(N)])
    mapm = GMMMachine(C, trainer="map", ubm=ubm)
    mapm.means = um + 1.0  # an adapted machine: neither its own means nor its own variances may be used as the UBM's
    mapm.variances = uv * 2.5
    machines = []
    for mm in models:
        g = GMMMachine(C)
        g.means = mm.copy()
        g.variances = uv * 3.0
        machines.append(g)
    scale = float(np.abs(um).max() + 1) * float(max(abs(np.asarray(st.sum_px)).max() for st in stats) + 1) / float(uv.min())
    distinct = set()
    # an ML machine that merely *carries* another machine in its `ubm` attribute (e.g. it was seeded from it) is itself the UBM
    seedm = GMMMachine(C, weights=np.asarray(ubm.weights, float))
    seedm.means = um - 2.0 * s
    seedm.variances = uv * 0.5
    mlm = GMMMachine(C, ubm=seedm, weights=np.asarray(ubm.weights, float))
    mlm.means = um.copy()
    mlm.variances = uv.copy()
    for okind, norm, uas in itertools.product(("none", "cd", "ncd"), (False, True), ("prior", "map", "ml_with_ubm")):
        off = 0 if okind == "none" else (off_cd if okind == "cd" else off_ncd)
        U = ubm if uas == "prior" else (mapm if uas == "map" else mlm)
        want = np.array([[ofa.linear_score(models[i], um, uv, np.asarray(stats[j].n), np.asarray(stats[j].sum_px), stats[j].t,
                                           None if okind == "none" else (off_cd if okind == "cd" else off_ncd[j]), norm)
                          for j in range(N)] for i in range(M)])
        tags = dict(offsets=okind, norm=norm, ubm_as=uas)
        for pres in ("array3", "machines", "list_of_arrays"):
            arg = np.array(models) if pres == "array3" else (machines if pres == "machines" else [mm.copy() for mm in models])
            got = np.asarray(linear_scoring(arg, U, stats, off, norm))
            c.transitions += 1
            if not c.check(got.shape == (M, N), "shape", f"{pres}: result shape {got.shape} want {(M, N)}", tags):
                continue
            c.close(got, want, "value", f"{pres}: scores vs formula", tags, scale=scale)
            c.check(bool(np.all(np.isfinite(got))), "finite", f"{pres}: non-finite score", tags)
        for v in np.round(want.ravel(), 9):
            if v != 0:
                distinct.add(float(v))
        # single 2-D model array and single statistics object
        got = np.asarray(linear_scoring(models[0].copy(), U, stats[0], 0 if okind == "none" else off_cd, norm))
        c.transitions += 1
        w0 = ofa.linear_score(models[0], um, uv, np.asarray(stats[0].n), np.asarray(stats[0].sum_px), stats[0].t, None if okind == "none" else off_cd, norm)
        if c.check(got.shape == (1, 1), "shape", f"single model / single statistics: shape {got.shape}", tags):
            c.close(got[0, 0], w0, "value", "single model / single statistics", tags, scale=scale)
        # zero for the UBM itself (no offsets)
        if okind == "none":
            z = np.asarray(linear_scoring([um.copy()], U, stats, 0, norm))
            c.close(z, np.zeros((1, N)), "zero_for_ubm", "score of the UBM against itself", tags, scale=scale)
        # zero-frame statistics give 0 with normalisation
        for j, st in enumerate(stats):
            if st.t == 0 and norm:
                gotj = np.asarray(linear_scoring(np.array(models), U, stats, off, norm))[:, j]
                c.check(bool(np.all(gotj == 0)), "zero_frames", f"zero-frame statistics must score 0, got {gotj.tolist()}", tags)
    # history: the UBM's variances are changed through the public setters after it has been used for scoring
    ubm2 = copy.deepcopy(ubm)
    linear_scoring(np.array(models), ubm2, stats, 0, False)
    for step, newvar in (("variances", uv * 4.0), ("floor", None), ("variances", uv * 0.5)):
        if step == "variances":
            ubm2.variances = newvar.copy()
        else:
            ubm2.variance_thresholds = float(uv.max()) * 8.0
        v2 = np.asarray(ubm2.variances, float)
        want2 = np.array([[ofa.linear_score(models[i], um, v2, np.asarray(stats[j].n), np.asarray(stats[j].sum_px), stats[j].t, off_cd, True)
                           for j in range(N)] for i in range(M)])
        got2 = np.asarray(linear_scoring(np.array(models), ubm2, stats, off_cd, True))
        c.close(got2, want2, "after_ubm_update", f"scores after the UBM's {step} were changed", {}, scale=scale * 8)
        c.transitions += 1
        if step == "floor":
            ubm2.variance_thresholds = 1e-12
    # a UBM whose means are stored as an integer array (the setter keeps what it is given)
    if case["mset"] == 0:
        ubm3 = GMMMachine(C, weights=np.asarray(ubm.weights, float))
        mi = np.round(um).astype(np.int64)
        ubm3.means = mi
        ubm3.variances = uv.copy()
        mods3 = [mi + 0.5 * s, mi - 0.25 * s]
        want3 = np.array([[ofa.linear_score(mods3[i], mi.astype(float), uv, np.asarray(stats[j].n), np.asarray(stats[j].sum_px), stats[j].t, None, False)
                           for j in range(N)] for i in range(2)])
        mach3 = []
        for mm in mods3:
            g3 = GMMMachine(C)
            g3.means = mm.copy()
            g3.variances = uv.copy()
            mach3.append(g3)
        for pres, arg in (("array3", np.array(mods3)), ("list_of_arrays", [m_.copy() for m_ in mods3]), ("machines", mach3)):
            got3 = np.asarray(linear_scoring(arg, ubm3, stats, 0, False))
            c.close(got3, want3, "integer_ubm_means", f"{pres}: UBM means held in an integer array, fractional model means", {}, scale=scale)
            c.transitions += 1
    # offsets given as a non-zero scalar or as one value per feature broadcast over components and tests
    for okind2, offv in (("scalar", 0.25 * s), ("per_feature", (np.arange(D, dtype=float) - 0.5) * s)):
        full = np.broadcast_to(np.asarray(offv, float), (C, D))
        for norm in (False, True):
            want4 = np.array([[ofa.linear_score(models[i], um, uv, np.asarray(stats[j].n), np.asarray(stats[j].sum_px), stats[j].t, full, norm)
                               for j in range(N)] for i in range(M)])
            got4 = np.asarray(linear_scoring(np.array(models), ubm, stats, offv, norm))
            c.close(got4, want4, "value", f"offsets given as {okind2}", dict(offsets=okind2, norm=norm, ubm_as="prior"), scale=scale)
            c.transitions += 1
    # linearity in the model offset
    d1, d2 = models[0] - um, (models[1] - um if M > 1 else (models[0] - um) * 0.5)
    for a, b in ((2.0, -0.5), (0.25, 3.0)):
        lhs = np.asarray(linear_scoring([um + a * d1 + b * d2], ubm, stats, off_cd, False))
        r1 = np.asarray(linear_scoring([um + d1], ubm, stats, off_cd, False))
        r2 = np.asarray(linear_scoring([um + d2], ubm, stats, off_cd, False))
        c.close(lhs, a * r1 + b * r2, "linearity", f"score(m + {a} d1 + {b} d2) vs {a} score(m+d1) + {b} score(m+d2)", {}, scale=scale * 4)
        c.transitions += 3
    # additivity over test statistics (un-normalised)
    if N >= 2:
        pooled = stats[0] + stats[1]
        lhs = np.asarray(linear_scoring(np.array(models), ubm, [pooled], off_cd, False))[:, 0]
        rhs = np.asarray(linear_scoring(np.array(models), ubm, stats[:2], off_cd, False)).sum(axis=1)
        c.close(lhs, rhs, "additivity", "score of pooled statistics vs sum of scores", {}, scale=scale * 2)
        c.transitions += 2
    # derivative identity: d/de sum log p(X | m + e*delta) at e = 0 equals the score of acc_stats(X)
    X = np.array(FRAMES[2], float)[:, :D] * s + o + SHIFT[0][:D]
    delta = models[0] - um
    if np.abs(delta).max() > 0:
        h = 2.0**-12
        vals = []
        for e in (h, -h):
            g = copy.deepcopy(ubm)
            g.means = um + e * delta
            vals.append(float(np.asarray(g.log_likelihood(X)).sum()))
        deriv = (vals[0] - vals[1]) / (2 * h)
        sc = float(np.asarray(linear_scoring([models[0]], ubm, [ubm.acc_stats(X)], 0, False))[0, 0])
        c.check(abs(deriv - sc) <= 1e-6 * max(1.0, abs(sc)) + 1e-7, "derivative",
                f"central difference of the UBM log-likelihood along (model - UBM) = {deriv!r}, linear score = {sc!r}", {})
        c.transitions += 3
    c.traces = c.transitions
    return c.result(nontrivial=len(distinct) >= 2, sig="%d|%d|%d" % (case["ubm"], case["sset"], case["mset"]))
