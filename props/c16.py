"""C16 - a trained model is a function of the labelled sample multiset and the seed only.

History cases = every sequence of <= depth operations over {re-seed NumPy's global generator, draw from it, train
another estimator (k-means random / k-means||, GMM, ISV, JFA, i-vector, WCCN)} followed by the fit under test; the
result must be bit-identical to the fit on the empty history (state of the search = history + global RNG state).
Permutation cases = every order of the training samples (n <= 5: all n!) and every renaming of the class ids (all K!);
the model must be the same up to rounding.
"""
import copy
import itertools

import numpy as np

from mc.util import Ctx, affine, sync_dask
from props import c11

PROPERTY = "C16"
RULE = (
    "histories: all sequences of <= depth operations over a menu of 9 (seed(0), seed(12345), draw, fit k-means random, fit "
    "k-means||, fit GMM, fit ISV, fit JFA, fit i-vector) x 9 fits under test (k-means random numpy/dask, k-means|| , GMM from "
    "seeded k-means numpy/dask, ISV list/bag/dask array, JFA list, WCCN; plus refits, shared trainers / settings dicts, seed 0, the default "
    "initialiser, and four estimators that are constructed BEFORE the history and trained after it, two of them training their UBM inside fit), "
    "compared bit-for-bit with the empty history; "
    "permutations: all n! sample orders x all K! class renamings for k-means / GMM (explicit start), ISV, JFA, WCCN, whitening. "
    "Non-trivial: history non-empty or permutation not the identity; distinct = distinct case"
)
ASSUMPTIONS = [
    "sample-order invariance of k-means / GMM is checked with explicit initial centroids / means: an initialiser that samples row indices cannot be order invariant for any implementation",
    "the i-vector trainer draws its initial T from the global generator by design and is not a fit under test (it is one of the history operations)",
]
BUDGET = {"quick": 900, "thorough": 4 * 3600}
DEPTH = {"quick": 2, "thorough": 3}
HOPS = ["seed0", "seed12345", "draw", "fit_km_random", "fit_gmm", "fit_isv", "fit_jfa", "fit_ivector", "fit_km_parallel"]
TARGETS = ["km_random", "km_random_dask", "gmm_km", "gmm_km_dask", "isv_list", "isv_bag", "isv_array_dask", "jfa_list", "wccn", "km_parallel",
           "isv_list_seed0", "jfa_list_seed0", "km_random_refit", "gmm_shared_km_trainer", "gmm_default_init",
           "isv_lazy_built_first", "jfa_lazy_built_first", "gmm_built_first", "km_built_first",
           "isv_list_npseed", "jfa_list_npseed", "km_random_npseed", "gmm_km_npseed"]
# "*_built_first": the estimator is constructed, THEN the history happens, THEN it is trained

_SHARED_KW = dict(n_gaussians=2, max_fitting_steps=2, convergence_threshold=None)  # one settings dict handed to several estimators

X8 = [[0, 0], [1, 0.5], [0.5, 1.5], [10, 10], [11, 11.5], [10.5, 9.5], [2, 1], [9, 12]]
Y8 = [0, 1, 0, 1, 0, 1, 1, 0]


def cases(tier, seed):
    out = []
    hists = [[]]
    for d in range(1, DEPTH[tier] + 1):
        hists += [list(h) for h in itertools.product(HOPS[:8], repeat=d)]
    for t in TARGETS:
        for h in hists:
            if t in ("km_parallel", "gmm_default_init") and len(h) > 1:
                continue  # 0.3 s per initialisation: depth 1 only
            if tier == "quick" and t.endswith("_built_first") and len(h) == 2 and (HOPS.index(h[0]) + HOPS.index(h[1])) % 2:
                continue
            if tier == "quick" and len(h) == 2 and t in ("km_random_dask", "gmm_km_dask", "isv_bag", "isv_array_dask") and (HOPS.index(h[0]) + HOPS.index(h[1])) % 3:
                continue
            out.append(dict(kind="history", target=t, hist=h, seed=seed))
        out.append(dict(kind="history", target=t, hist=["fit_km_parallel"], seed=seed))
    for t, n in (("km_explicit", 5), ("gmm_explicit", 5), ("whitening", 5)):
        for perm in itertools.permutations(range(n)):
            out.append(dict(kind="perm", target=t, perm=list(perm), rename=None, seed=seed))
    # class ids that are not 0..K-1 ({1,4,9,12} collide in a small hash table, so set iteration order follows insertion)
    perms8 = list(itertools.permutations(range(8)))[:: (997 if tier == "quick" else 211)]
    for perm in perms8:
        for ren in list(itertools.permutations(range(4)))[:: (1 if tier == "thorough" else 3)]:
            out.append(dict(kind="perm", target="wccn_ids", perm=list(perm), rename=list(ren), seed=seed))
    for h in ([], ["fit_jfa_shared_kwargs"], ["fit_jfa_shared_kwargs", "draw"]):
        out.append(dict(kind="history", target="isv_shared_kwargs", hist=h, seed=seed))
    for t, n, K in (("isv", 4, 2), ("jfa", 4, 2), ("isv3", 5, 3), ("wccn", 5, 2), ("wccn3", 6, 3), ("isv_array", 5, 2), ("jfa_array", 5, 2)):
        perms = list(itertools.permutations(range(n)))
        if n == 6:
            perms = perms[::6]
        if t in ("isv3", "isv_array", "jfa_array") and tier == "quick":
            perms = perms[::3]
        for perm in perms:
            for ren in itertools.permutations(range(K)):
                out.append(dict(kind="perm", target=t, perm=list(perm), rename=list(ren), seed=seed))
    return out


def _world(s, o):
    X = np.array(X8, float) * s + o
    ubm = c11._ubm(c11.UBMS[0], s, o)
    rng = np.random.RandomState(777)
    frames = [np.round(rng.normal(size=(3 + i % 2, 2)) * 6) / 4 * s + np.asarray(ubm.means)[i % 2] for i in range(6)]
    stats = [ubm.acc_stats(f) for f in frames]
    return X, ubm, stats


def _vec(m, names):
    return {n: np.array(np.asarray(getattr(m, n)), float) for n in names}


def _fit_target(t, X, ubm, stats, between=None):
    import dask.array as da
    import dask.bag as db

    from bob.learn.em import WCCN, GMMMachine, ISVMachine, JFAMachine, KMeansMachine

    y = np.array(Y8)
    sl = np.array([0, 1, 0, 1, 1, 0])
    if t.endswith("_built_first"):
        kw = dict(n_gaussians=2, max_fitting_steps=2, convergence_threshold=None,
                  k_means_trainer=KMeansMachine(2, init_method="random", random_state=2, max_iter=2))
        if t == "isv_lazy_built_first":  # the UBM is trained inside fit_using_array
            m, names = ISVMachine(r_U=1, em_iterations=1, ubm=None, ubm_kwargs=kw, random_state=11), ["U", "D"]
        elif t == "jfa_lazy_built_first":
            m, names = JFAMachine(r_U=1, r_V=1, em_iterations=1, ubm=None, ubm_kwargs=kw, random_state=11), ["U", "V", "D"]
        elif t == "gmm_built_first":
            m, names = GMMMachine(2, k_means_trainer=KMeansMachine(2, init_method="random", random_state=5, max_iter=2), random_state=5, max_fitting_steps=2,
                                  update_means=True, update_variances=True, update_weights=True, convergence_threshold=None), ["means", "variances", "weights"]
        else:
            m, names = KMeansMachine(2, init_method="random", random_state=3, max_iter=3), ["centroids_"]
        if between is not None:
            between()
        if t in ("isv_lazy_built_first", "jfa_lazy_built_first"):
            m.fit_using_array(X.copy(), y)
            out = _vec(m, names)
            out["ubm_means"] = np.array(m.ubm.means, float)
            return out
        return _vec(m.fit(X.copy()), names)
    if t in ("km_random", "km_random_dask"):
        A = X.copy() if t == "km_random" else da.from_array(X.copy(), chunks=(3, 2))
        return _vec(KMeansMachine(2, init_method="random", random_state=3, max_iter=3).fit(A), ["centroids_"])
    if t == "km_parallel":
        return _vec(KMeansMachine(2, init_method="k-means||", random_state=1, max_iter=1).fit(X.copy()), ["centroids_"])
    if t == "gmm_default_init":  # the default initialiser (k-means|| seeded with random_state)
        g = GMMMachine(2, random_state=6, max_fitting_steps=1, update_means=True, update_variances=True, update_weights=True, convergence_threshold=None).fit(X.copy())
        return _vec(g, ["means", "variances", "weights"])
    if t in ("gmm_km", "gmm_km_dask"):
        A = X.copy() if t == "gmm_km" else da.from_array(X.copy(), chunks=(5, 2))
        g = GMMMachine(2, k_means_trainer=KMeansMachine(2, init_method="random", random_state=5, max_iter=2), random_state=5, max_fitting_steps=2,
                       update_means=True, update_variances=True, update_weights=True, convergence_threshold=None).fit(A)
        return _vec(g, ["means", "variances", "weights"])
    # seeds that are NumPy integers (np.arange, a parameter grid, an HDF5 attribute), not Python ints
    if t == "isv_list_npseed":
        return _vec(ISVMachine(r_U=2, em_iterations=1, ubm=ubm, random_state=np.int64(4)).fit(copy.deepcopy(stats), sl), ["U", "D"])
    if t == "jfa_list_npseed":
        return _vec(JFAMachine(r_U=1, r_V=1, em_iterations=1, ubm=ubm, random_state=np.arange(12, dtype=np.uint32)[9]).fit(copy.deepcopy(stats), sl), ["U", "V", "D"])
    if t == "km_random_npseed":
        return _vec(KMeansMachine(2, init_method="random", random_state=np.int64(3), max_iter=3).fit(X.copy()), ["centroids_"])
    if t == "gmm_km_npseed":
        g = GMMMachine(2, k_means_trainer=KMeansMachine(2, init_method="random", random_state=np.int32(5), max_iter=2), random_state=np.int32(5), max_fitting_steps=2,
                       update_means=True, update_variances=True, update_weights=True, convergence_threshold=None).fit(X.copy())
        return _vec(g, ["means", "variances", "weights"])
    if t == "isv_list_seed0":
        return _vec(ISVMachine(r_U=2, em_iterations=1, ubm=ubm, random_state=0).fit(copy.deepcopy(stats), sl), ["U", "D"])
    if t == "jfa_list_seed0":
        return _vec(JFAMachine(r_U=1, r_V=1, em_iterations=1, ubm=ubm, random_state=0).fit(copy.deepcopy(stats), sl), ["U", "V", "D"])
    if t == "km_random_refit":
        # the same estimator object was trained on other data before: fit() re-initialises, the result must not depend on it
        m = KMeansMachine(2, init_method="random", random_state=3, max_iter=3)
        m.fit(X[::-1][:6] * 0.5 + 1.0)
        return _vec(m.fit(X.copy()), ["centroids_"])
    if t == "gmm_shared_km_trainer":
        km = KMeansMachine(2, init_method="random", random_state=5, max_iter=2)
        kw = dict(random_state=5, max_fitting_steps=2, update_means=True, update_variances=True, update_weights=True, convergence_threshold=None)
        GMMMachine(2, k_means_trainer=km, **kw).fit(X[::-1][:6] * 0.5 + 1.0)
        return _vec(GMMMachine(2, k_means_trainer=km, **kw).fit(X.copy()), ["means", "variances", "weights"])
    if t == "isv_shared_kwargs":
        m = ISVMachine(r_U=1, em_iterations=1, ubm=None, ubm_kwargs=_SHARED_KW, random_state=11)
        m.fit_using_array(X.copy(), y)
        return dict(U=np.array(m.U, float), ubm_means=np.array(m.ubm.means, float))
    if t == "isv_list":
        return _vec(ISVMachine(r_U=2, em_iterations=2, ubm=ubm, random_state=4).fit(copy.deepcopy(stats), sl), ["U", "D"])
    if t == "isv_bag":
        return _vec(ISVMachine(r_U=2, em_iterations=2, ubm=ubm, random_state=4).fit(db.from_sequence(copy.deepcopy(stats), npartitions=2), sl), ["U", "D"])
    if t == "isv_array_dask":
        return _vec(ISVMachine(r_U=1, em_iterations=1, ubm=ubm, random_state=4).fit_using_array(da.from_array(X.copy(), chunks=(3, 2)), y), ["U", "D"])
    if t == "jfa_list":
        return _vec(JFAMachine(r_U=1, r_V=2, em_iterations=1, ubm=ubm, random_state=9).fit(copy.deepcopy(stats), sl), ["U", "V", "D"])
    if t == "wccn":
        return _vec(WCCN().fit(X.copy(), y), ["weights"])
    raise KeyError(t)


def _hop(op, X, ubm, stats):
    from bob.learn.em import GMMMachine, ISVMachine, IVectorMachine, JFAMachine, KMeansMachine

    sl = np.array([0, 1, 0, 1, 1, 0])
    if op == "seed0":
        np.random.seed(0)
    elif op == "seed12345":
        np.random.seed(12345)
    elif op == "draw":
        np.random.rand(3)
        np.random.normal(size=2)
    elif op == "fit_km_random":
        KMeansMachine(3, init_method="random", random_state=8, max_iter=2).fit(X[::-1].copy())
    elif op == "fit_km_parallel":
        KMeansMachine(2, init_method="k-means||", random_state=2, max_iter=1).fit(X.copy())
    elif op == "fit_gmm":
        GMMMachine(2, k_means_trainer=KMeansMachine(2, init_method="random", random_state=1, max_iter=1), max_fitting_steps=1).fit(X.copy())
    elif op == "fit_isv":
        ISVMachine(r_U=1, em_iterations=1, ubm=ubm, random_state=77).fit(copy.deepcopy(stats), sl)
    elif op == "fit_jfa":
        JFAMachine(r_U=1, r_V=1, em_iterations=1, ubm=ubm, random_state=None).fit(copy.deepcopy(stats), sl)
    elif op == "fit_jfa_shared_kwargs":
        JFAMachine(r_U=1, r_V=1, em_iterations=1, ubm=None, ubm_kwargs=_SHARED_KW, random_state=5).fit_using_array(X.copy(), np.array(Y8))
    elif op == "fit_ivector":
        IVectorMachine(ubm, dim_t=2, max_iterations=1).fit(copy.deepcopy(stats))


def _perm_case(case, c, s, o):
    import dask.array as da

    from bob.learn.em import WCCN, GMMMachine, ISVMachine, JFAMachine, KMeansMachine, Whitening

    X, ubm, stats = _world(s, o)
    t = case["target"]
    perm = case["perm"]
    ren = case["rename"]
    n = len(perm)
    tags = dict(target=t)

    def run(order, rename):
        if t == "km_explicit":
            Xs = X[:n][order]
            return _vec(KMeansMachine(2, init_method=np.array([[0.0, 0.0], [1.0, 1.0]]) * s + o, max_iter=3, convergence_threshold=None).fit(Xs), ["centroids_"])
        if t == "gmm_explicit":
            Xs = X[:n][order]
            g = GMMMachine(2, max_fitting_steps=3, convergence_threshold=None, update_means=True, update_variances=True, update_weights=True, weights=np.array([0.25, 0.75]))
            g.means = np.array([[0.0, 0.0], [1.0, 1.0]]) * s + o
            g.variances = np.full((2, 2), 4.0 * s * s)
            return _vec(g.fit(Xs), ["means", "variances", "weights"])
        if t == "whitening":
            return _vec(Whitening().fit(X[:n][order]), ["weights", "input_subtract"])
        if t == "wccn_ids":
            ids = [1, 4, 9, 12]
            base = [0, 1, 2, 3, 0, 1, 2, 3]
            Xs = X[order]
            ys = np.array([ids[rename[base[i]]] for i in order])
            return _vec(WCCN().fit(Xs, ys), ["weights"])
        if t in ("wccn", "wccn3"):
            base = [0, 1, 0, 1, 0, 1][:n] if t == "wccn" else [0, 1, 2, 0, 1, 2]
            Xs = (X[:n] if t == "wccn" else np.vstack([X[:5], X[7:8]]))[order]
            ys = np.array([rename[base[i]] for i in order])
            return _vec(WCCN().fit(Xs, ys), ["weights"])
        if t == "isv_array":
            base = [0, 1, 0, 1, 1]
            ys = np.array([rename[base[i]] for i in order])
            return _vec(ISVMachine(r_U=1, em_iterations=2, ubm=ubm, random_state=4).fit_using_array(da.from_array(X[:n][order].copy(), chunks=(2, 2)), ys), ["U"])
        if t == "jfa_array":
            base = [0, 1, 0, 1, 1]
            ys = np.array([rename[base[i]] for i in order])
            return _vec(JFAMachine(r_U=1, r_V=1, em_iterations=2, ubm=ubm, random_state=4).fit_using_array(da.from_array(X[:n][order].copy(), chunks=(2, 2)), ys), ["U", "V", "D"])
        base = {"isv": [0, 1, 0, 1], "jfa": [0, 1, 1, 0], "isv3": [0, 1, 2, 0, 1]}[t]
        st = [copy.deepcopy(stats[i]) for i in order]
        ys = np.array([rename[base[i]] for i in order])
        if t == "jfa":
            return _vec(JFAMachine(r_U=1, r_V=1, em_iterations=2, ubm=ubm, random_state=9).fit(st, ys), ["U", "V", "D"])
        return _vec(ISVMachine(r_U=2, em_iterations=2, ubm=ubm, random_state=4).fit(st, ys), ["U", "D"])

    K = 0 if ren is None else len(ren)
    if t == "wccn_ids":
        X = X + np.array([[0.0, 0.0], [0.5, 0.25], [0.0, 1.0], [0.25, 0.0], [1.0, 0.0], [0.0, 0.5], [0.5, 0.5], [1.0, 2.0]]) * s  # 4 classes x 2 samples in general position
    ref = run(list(range(n)), list(range(K)))
    got = run(perm, ren if ren is not None else [])
    c.transitions += 2
    for k in ref:
        c.close(got[k], ref[k], "permutation", f"{t}: {k} with sample order {perm} and class renaming {ren} vs the given order", tags, rtol=1e-8,
                scale=float(np.abs(ref[k]).max()) + 1e-12, kappa=1e4)
    ident = perm == list(range(n)) and (ren is None or ren == list(range(K)))
    return not ident


def run_case(case):
    sync_dask()
    c = Ctx()
    s, o = affine(case["seed"])
    state = np.random.get_state()
    try:
        if case["kind"] == "perm":
            nt = _perm_case(case, c, s, o)
            sig = "perm|%s|%r|%r" % (case["target"], case["perm"], case["rename"])
        else:
            X, ubm, stats = _world(s, o)
            _SHARED_KW.clear()
            _SHARED_KW.update(n_gaussians=2, max_fitting_steps=2, convergence_threshold=None)
            np.random.seed(424242)
            fresh = {"km_random_refit": "km_random", "gmm_shared_km_trainer": "gmm_km", "km_random_npseed": "km_random", "gmm_km_npseed": "gmm_km"}.get(case["target"], case["target"])
            ref = _fit_target(fresh, X, ubm, stats)
            again = _fit_target(case["target"], X, ubm, stats)
            for k in ref:
                c.check(np.array_equal(ref[k], again[k]), "repeat", f"{case['target']}: fitting again (same data, configuration and seed) gives different {k} than a fresh estimator", dict(target=case["target"]))
            _SHARED_KW.clear()
            _SHARED_KW.update(n_gaussians=2, max_fitting_steps=2, convergence_threshold=None)
            np.random.seed(424242)
            def history():
                for op in case["hist"]:
                    _hop(op, X, ubm, stats)
                    c.transitions += 1

            if case["target"].endswith("_built_first"):
                got = _fit_target(case["target"], X, ubm, stats, between=history)
            else:
                history()
                got = _fit_target(case["target"], X, ubm, stats)
            c.transitions += 3
            for k in ref:
                c.check(got[k].shape == ref[k].shape and np.array_equal(got[k], ref[k]), "history",
                        lambda: f"{case['target']}: {k} after history {case['hist']} differs from the empty history by {np.abs(got[k] - ref[k]).max()!r}", dict(target=case["target"]))
            nt = bool(case["hist"])
            sig = "hist|%s|%r" % (case["target"], case["hist"])
    finally:
        np.random.set_state(state)
    c.states = 1 + len(case.get("hist", []))
    c.traces = c.transitions
    return c.result(nontrivial=nt, sig=sig)
