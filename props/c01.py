"""C01 - GMM log-likelihood is the log of a normalised diagonal-Gaussian mixture density.

Case = one machine (C, D, component templates, weights, floors). Inside a case every sample of the per-coordinate
alphabet^D is presented alone (1-D vector), inside the full NumPy batch and (for the Dask sub-alphabet) inside every
row composition of a 4-row Dask array. Oracle: 60-digit Decimal evaluation of ln sum_c w_c prod_d N(x_d; mu, v).
"""
import itertools

import numpy as np
from scipy.special import logsumexp

from mc import oracle_gmm as og
from mc.util import Ctx, affine, compositions, sync_dask

PROPERTY = "C01"
RULE = (
    "complete product: (C,D) x 25 component-template rotations x weight compositions of 8 eighths x 4 floor kinds; per "
    "machine every sample of the coordinate alphabet (bulk x bulk, tails and non-dyadic values paired with bulk values) as "
    "single vector and inside the batch; every 4th machine also through all 8 row compositions of a 4-row dask array; D=1 "
    "machines additionally integrate exp(log_likelihood) on a grid. Oracle: Decimal-60 naive mixture density. "
    "Non-trivial: machine has >= 2 components or an active floor; distinct = distinct machine descriptions"
)
ASSUMPTIONS = [
    "values limited to the listed alphabets; VERIF_SEED picks an affine re-labelling (means/samples a*x+b, variances a^2*v)",
    "oracle uses the machine's visible (post-floor) variances; visible variances are also checked to be max(given, floor)",
    "float64 inputs only",
]
BUDGET = {"quick": 900, "thorough": 3 * 3600}

MU = [-3.0, 0.0, 1.0, 2.5, 10.0]
VAR = [0.25, 1.0, 4.0, 2.0**-10, 2.0**10]
BULK = [-3.0, -0.5, 0.0, 1.0, 2.5, 10.0]
TAILS = [64.0, -64.0, 4096.0, -4096.0, 2.0**20, 0.1, 1.0 / 3.0, 1e6 + 0.1]


STRESS = [
    dict(mu=[[0.0, 20000.0], [20000.5, 0.0]], var=[[1e-4, 1.0], [1e-4, 4.0]], w=[0.5, 0.5]),
    dict(mu=[[-(2.0**15), 3.0], [2.0**15, 3.5]], var=[[2.0**-14, 2.0**10], [2.0**-12, 2.0**-10]], w=[0.125, 0.875]),
    dict(mu=[[1e6 + 0.1], [1e6 + 0.7], [-1e6]], var=[[1e-3], [2e-3], [1.0]], w=[0.25, 0.5, 0.25]),
    dict(mu=[[12345.678, -0.001, 1e5]], var=[[1e-6, 1e-6, 1e2]], w=[1.0]),
    # many features with small variances: the product of the variances underflows, the sum of their logarithms does not
    dict(mu=[[0.25 * d for d in range(30)], [1.0 - 0.125 * d for d in range(30)]], var=[[2.0**-40] * 30, [2.0**-36] * 30], w=[0.25, 0.75]),
    dict(mu=[[float(d % 3) for d in range(200)]], var=[[2.0**-7] * 200], w=[1.0]),
    # a feature in very small units: variances below machine epsilon, floors lowered below them
    dict(mu=[[3e-9, 1.0], [-2e-9, 2.0]], var=[[1e-18, 1.0], [4e-18, 0.25]], w=[0.375, 0.625], thr=1e-30),
    dict(mu=[[2.0**-40], [3 * 2.0**-40]], var=[[2.0**-80], [2.0**-78]], w=[0.5, 0.5], thr=2.0**-100),
]


def _weights(C):
    out = []
    for parts in itertools.product(range(1, 9), repeat=C):
        if sum(parts) == 8:
            out.append([p / 8.0 for p in parts])
    return out


def cases(tier, seed):
    out = []
    shapes = [(1, 1), (2, 1), (2, 2), (3, 2)] if tier == "quick" else [(1, 1), (2, 1), (3, 1), (1, 2), (2, 2), (3, 2), (2, 3), (3, 3)]
    k = 0
    for C, D in shapes:
        ws = _weights(C)
        if tier == "quick" and len(ws) > 7:
            ws = ws[::3]
        # positive weights that do not sum to one (a pruned sub-mixture, un-normalised masses): the value is still ln sum_c w_c N_c
        ws = ws + [[0.25, 0.375, 0.125][:C], [2.0, 1.0, 4.0][:C]]
        for i in range(5):
            for j in range(5):
                if tier == "quick" and (i + j) % 2 and C > 1:
                    continue
                for w in ws:
                    for floor in ("default", "scalar", "feature", "matrix"):
                        k += 1
                        out.append(dict(C=C, D=D, i=i, j=j, w=w, floor=floor, dask=(k % 5 == 0), seed=seed, tier=tier))
                        if floor != "default" and (k % 3 == 0 or tier == "thorough"):
                            # same visible machine reached by another order of public calls: variances first, floors raised afterwards
                            out.append(dict(C=C, D=D, i=i, j=j, w=w, floor=floor, order="var_then_floor", dask=False, seed=seed, tier=tier))
    # mixed feature scales: narrow variances with component means far apart (cancellation-prone if the quadratic form is expanded)
    for st in range(len(STRESS)):
        for floor in ("default", "matrix"):
            out.append(dict(stress=st, C=len(STRESS[st]["w"]), D=len(STRESS[st]["mu"][0]), w=STRESS[st]["w"], floor=floor, dask=(st % 2 == 0), seed=seed, tier=tier, i=0, j=0))
    return out


def build(case):
    from bob.learn.em import GMMMachine

    s, o = affine(case["seed"])
    C, D = case["C"], case["D"]
    if "stress" in case:
        mu = np.array(STRESS[case["stress"]]["mu"]) * s + o
        var = np.array(STRESS[case["stress"]]["var"]) * s * s
    else:
        mu = np.array([[MU[(case["i"] + c + 2 * d) % 5] for d in range(D)] for c in range(C)]) * s + o
        var = np.array([[VAR[(case["j"] + 2 * c + d) % 5] for d in range(D)] for c in range(C)]) * s * s
    fl = case["floor"]
    if fl == "default" and "stress" in case and "thr" in STRESS[case["stress"]]:
        floor = STRESS[case["stress"]]["thr"] * s * s
    elif fl == "default":
        floor = None
    elif fl == "scalar":
        floor = 0.5 * s * s
    elif fl == "feature":
        floor = np.array([[0.5, 2.0**-12, 8.0][d % 3] for d in range(D)]) * s * s
    else:
        floor = np.array([[[0.5, 2.0**-12, 8.0][(c + d) % 3] for d in range(D)] for c in range(C)]) * s * s
    m = GMMMachine(C, weights=np.array(case["w"]))
    m.means = mu.copy()
    if case.get("order") == "var_then_floor":
        m.variances = var.copy()
        m.variance_thresholds = floor
    else:
        if floor is not None:
            m.variance_thresholds = floor
        m.variances = var.copy()
    return m, mu, var, floor, s, o


def _samples(D, s, o):
    if D == 1:
        pts = [[b] for b in BULK] + [[t] for t in TAILS]
    else:
        pts = [list(p) for p in itertools.product(BULK, repeat=D)]
        if D > 2:
            pts = pts[::7]
        for t in TAILS:
            for b in (0.0, 2.5):
                for pos in range(D):
                    v = [b] * D
                    v[pos] = t
                    pts.append(v)
            pts.append([t] * D)
    return np.array(pts) * s + o


def run_case(case):
    sync_dask()
    c = Ctx()
    m, mu, var, floor, s, o = build(case)
    C, D = case["C"], case["D"]
    tags = dict(floor=case["floor"])
    vis = np.array(m.variances, dtype=float)
    want_vis = np.maximum(var, floor if floor is not None else np.finfo(float).eps)
    c.close(vis, np.broadcast_to(want_vis, vis.shape), "visible_variances", "variances after floor", tags, rtol=1e-15)
    w = np.array(m.weights, dtype=float)
    if case.get("j", 0) % 2 == 0:
        # history: assignments of unusual weight vectors, each taken back (if it was accepted) or caught (if it was refused);
        # either way the machine must afterwards score with the weights it shows
        import warnings

        for bad in (np.where(np.arange(C) == 0, 0.0, w), -w, np.full(C, np.nan), np.full(C, np.inf)):
            try:
                with warnings.catch_warnings():
                    warnings.simplefilter("ignore")
                    m.weights = bad
            except Exception:  # noqa: BLE001
                pass
            else:
                m.weights = w.copy()
        c.check(np.array_equal(np.array(m.weights, dtype=float), w), "refused_or_restored", "weights shown after refused / taken-back assignments", tags)
        c.transitions += 4
    X = _samples(D, s, o) if "stress" not in case else None
    if "stress" in case:
        sd = np.sqrt(vis)
        pts = [mu[cc] + k * sd[cc] for cc in range(C) for k in (0.0, 0.5, -3.0, 40.0)]
        pts += [(mu[a_] + mu[b_]) / 2 for a_ in range(C) for b_ in range(a_ + 1, C)]
        X = np.array(pts)
    n = len(X)
    LL = np.asarray(m.log_likelihood(X))
    LWL = np.asarray(m.log_weighted_likelihood(X))
    c.check(LL.shape == (n,), "shape", f"log_likelihood shape {LL.shape} for {n} samples", tags)
    c.check(LWL.shape == (C, n), "shape", f"log_weighted_likelihood shape {LWL.shape} want {(C, n)}", tags)
    if c.viol:
        return c.result()
    c.check(bool(np.all(np.isfinite(LL)) and np.all(np.isfinite(LWL))), "finite", "non-finite log-likelihood for a finite sample", tags)
    want_ll = np.empty(n)
    want_lwl = np.empty((C, n))
    for i in range(n):
        l = og.dec_lwl(X[i], w, mu, vis)
        want_lwl[:, i] = [float(v) for v in l]
        want_ll[i] = float(og.dec_ll(l))
    c.transitions += n
    c.close(LL, want_ll, "mixture_density", "log_likelihood(batch) vs ln sum_c w_c N_c (Decimal-60)", tags)
    c.close(LWL, want_lwl, "component_density", "log_weighted_likelihood(batch) vs ln w_c + ln N_c (Decimal-60)", tags)
    c.close(logsumexp(LWL, axis=0), LL, "lse_consistency", "log-sum-exp of the per-component values vs log_likelihood", tags, rtol=1e-12)
    # single vector == batch
    for i in range(n):
        one = np.asarray(m.log_likelihood(X[i]))
        ok = one.shape == (1,) and abs(float(one[0]) - LL[i]) <= 1e-12 * max(1.0, abs(LL[i]))
        c.check(ok, "single_vs_batch", lambda: f"sample {X[i].tolist()}: alone {one!r}, in batch {LL[i]!r}", tags)
        if i % 5 == 0:
            onew = np.asarray(m.log_weighted_likelihood(X[i]))
            okw = onew.shape in ((C, 1), (C,)) and bool(np.all(np.abs(onew.reshape(C) - LWL[:, i]) <= 1e-12 * np.maximum(1.0, np.abs(LWL[:, i]))))
            c.check(okw, "single_vs_batch", lambda: f"sample {X[i].tolist()}: per-component values alone {onew.tolist()}, in batch {LWL[:, i].tolist()}", tags)
        c.transitions += 1
    # the same batch held in other containers: float32 (values re-read exactly from the float32 array) and, for
    # integer-valued samples, int16/int32 - the result must be the float64 result for those values
    if case.get("i", 0) % 2 == 0 or "stress" in case:
        X32 = X.astype(np.float32)
        Xv = X32.astype(float)
        if np.all(np.isfinite(Xv)):
            w32 = np.empty(n)
            wl32 = np.empty((C, n))
            for i in range(n):
                l = og.dec_lwl(Xv[i], w, mu, vis)
                wl32[:, i] = [float(v) for v in l]
                w32[i] = float(og.dec_ll(l))
            c.close(np.asarray(m.log_likelihood(X32), float), w32, "container_dtype", "log_likelihood of a float32 batch vs Decimal-60 on the same values", tags)
            c.close(np.asarray(m.log_weighted_likelihood(X32), float), wl32, "container_dtype", "log_weighted_likelihood of a float32 batch", tags)
            c.transitions += 2
        ints = np.all(X == np.round(X), axis=1) & np.all(np.abs(X) < 2**15, axis=1)
        if ints.any():
            for dt in (np.int16, np.int32):
                Xi = X[ints].astype(dt)
                c.close(np.asarray(m.log_likelihood(Xi), float), LL[ints], "container_dtype", f"log_likelihood of an {np.dtype(dt).name} batch vs the float64 batch", tags, rtol=1e-12)
                c.close(np.asarray(m.log_weighted_likelihood(Xi), float), LWL[:, ints], "container_dtype", f"log_weighted_likelihood of an {np.dtype(dt).name} batch", tags, rtol=1e-12)
                c.transitions += 2
    st = m.acc_stats(X)
    c.close(float(st.log_likelihood), float(want_ll.sum()), "stats_loglik", "acc_stats(X).log_likelihood vs sum of sample log-likelihoods", tags,
            scale=float(np.abs(want_ll).max()) * n * 2.0**-10)
    # dask: every row composition of a 4-row batch
    if case["dask"]:
        import dask.array as da

        idx = [0, n // 3, (2 * n) // 3, n - 1]
        B = X[idx]
        for comp in compositions(4):
            A = da.from_array(B.copy(), chunks=(comp, (D,)))
            got = np.asarray(m.log_likelihood(A))
            c.check(got.shape == (4,) and np.all(np.abs(got - LL[idx]) <= 1e-12 * np.maximum(1.0, np.abs(LL[idx]))), "dask_vs_numpy",
                    lambda: f"chunks {comp}: dask {got!r} numpy {LL[idx]!r}", tags)
            gotw = np.asarray(m.log_weighted_likelihood(A))
            c.close(gotw, LWL[:, idx], "dask_vs_numpy", f"log_weighted_likelihood chunks {comp}", tags, rtol=1e-12)
            sd = m.acc_stats(A)
            c.close(float(np.asarray(sd.log_likelihood)), float(LL[idx].sum()), "dask_vs_numpy", f"acc_stats log_likelihood chunks {comp}", tags,
                    rtol=1e-12, scale=float(np.abs(LL[idx]).max()) * 2.0**-10)
            c.transitions += 3
        # two lazy results evaluated in one graph (e.g. a log-likelihood ratio): each must still be its own value
        import copy as _copy
        import dask

        m2 = _copy.deepcopy(m)
        m2.means = np.asarray(m.means, float) + 0.5 * s
        m2.variances = np.asarray(m.variances, float) * 2.0
        B2 = X[[1 % n, 2 % n, 0, n - 1]]
        A1 = da.from_array(B.copy(), chunks=((2, 2), (D,)))
        A2 = da.from_array(B2.copy(), chunks=((2, 2), (D,)))
        la, lb, lc = m.log_likelihood(A1), m2.log_likelihood(A1), m.log_likelihood(A2)
        ra, rb, rc = dask.compute(la, lb, lc)
        want_b = np.asarray(m2.log_likelihood(B))
        want_c = np.asarray(m.log_likelihood(B2))
        c.close(np.asarray(ra), LL[idx], "joint_graph", "log_likelihood computed together with other lazy results", tags, rtol=1e-12)
        c.close(np.asarray(rb), want_b, "joint_graph", "second machine's log_likelihood computed in the same graph", tags, rtol=1e-12)
        c.close(np.asarray(rc), want_c, "joint_graph", "same machine on a second array computed in the same graph", tags, rtol=1e-12)
        c.close(np.asarray((la - lb).compute()), LL[idx] - want_b, "joint_graph", "lazy log-likelihood ratio", tags, rtol=1e-9, scale=float(np.abs(LL[idx]).max()))
        c.transitions += 2
    # the same visible parameters held by a MAP machine (whose prior has other variances): same density
    if case.get("i", 0) % 2 == 1 or "stress" in case:
        from bob.learn.em import GMMMachine

        prior = GMMMachine(C, weights=np.full(C, 1.0 / C))
        prior.means = mu + 1.0 * s
        prior.variances = np.full((C, D), 3.0 * s * s)
        mm = GMMMachine(C, trainer="map", ubm=prior)
        mm.weights = np.array(m.weights, float)
        mm.means = mu.copy()
        mm.variance_thresholds = m.variance_thresholds
        mm.variances = vis.copy()
        c.close(np.asarray(mm.log_likelihood(X), float), want_ll, "map_machine_density", "log_likelihood of a MAP machine holding the same visible parameters", tags)
        c.transitions += 1
    # normalisation: the implied density integrates to one (D = 1, moderate scale ratios)
    if D == 1 and vis.max() / vis.min() <= 2.0**14:
        sd_ = np.sqrt(vis[:, 0])
        lo, hi = float((mu[:, 0] - 12 * sd_).min()), float((mu[:, 0] + 12 * sd_).max())
        total = 0.0
        # piecewise grids fine enough for the narrowest component
        edges = sorted({lo, hi} | {float(v) for cc in range(C) for v in (mu[cc, 0] - 12 * sd_[cc], mu[cc, 0] + 12 * sd_[cc])})
        for a, b in zip(edges[:-1], edges[1:]):
            g = np.linspace(a, b, 40001)
            total += float(np.trapezoid(np.exp(np.asarray(m.log_likelihood(g[:, None]))), g))
        c.check(abs(total - float(w.sum())) <= 1e-5 * max(1.0, float(w.sum())), "normalised", f"integral of exp(log_likelihood) = {total!r}, sum of the weights = {float(w.sum())!r}", tags)
        c.count("integrated")
    c.states = n
    c.traces = c.transitions
    active = floor is not None and bool(np.any(np.broadcast_to(floor, var.shape) > var))
    sig = "%d|%d|%d|%d|%r|%s|%s|%s" % (C, D, case["i"], case["j"], case["w"], case["floor"], case.get("order"), case.get("stress"))
    return c.result(nontrivial=(C >= 2 or active), sig=sig)
