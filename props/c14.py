"""C14 - WCCN / whitening map covariance to identity; WCCN depends only on the partition.

Case = integer data set x class partition x label map x sample order x input kind x pinv switch. Oracle: identities
evaluated on the library's own transform output (zero mean / identity covariance; within-class scatter / K = identity),
triangularity and positive diagonal, the unique Cholesky factor computed independently from the exact (rational)
scatter matrix, equality across relabellings of one partition, Dask == NumPy.
"""
import itertools
from fractions import Fraction as F

import numpy as np

from mc.util import Ctx, affine, compositions, sync_dask

PROPERTY = "C14"
RULE = (
    "complete product: 4 integer data sets (n <= 8, D in {2,3}, full rank checked exactly) x class partitions (2-3 classes, "
    "unequal sizes, incl. a class of 2) x label maps {0..K-1, permuted, +5, negative, non-contiguous, large} x sample order "
    "{given, interleaved, reversed} x input kind (numpy, list of rows, dask with several row compositions) x pinv on/off; "
    "whitening on the same data x kinds. Non-trivial: K >= 2 classes and the label map is not the identity, or dask input; "
    "distinct = distinct case"
)
ASSUMPTIONS = ["rank is decided exactly (rational determinant); rank-deficient configurations are excluded and counted",
               "comparison tolerance scales with the condition number of the scatter matrix (computed exactly)"]
BUDGET = {"quick": 600, "thorough": 3600}

DATA = {
    "a2": [[0, 0], [1, 2], [3, 1], [10, 10], [12, 11], [11, 14], [5, 0], [6, 3]],
    "b2": [[2, -3], [4, 1], [-1, 0], [0, 5], [7, 7], [3, 8]],
    "c3": [[0, 0, 1], [1, 2, 0], [3, 1, 4], [2, 2, 2], [10, 10, 1], [12, 11, 0], [11, 14, 3], [9, 9, 8]],
    "d3": [[1, 0, 0], [0, 2, 0], [0, 0, 3], [1, 1, 1], [5, 4, 3], [2, 7, 1], [8, 1, 6]],
}
PARTS = {
    8: [[0, 0, 0, 0, 1, 1, 1, 1], [0, 1, 0, 1, 2, 2, 0, 1], [0, 0, 0, 1, 1, 1, 1, 1], [0, 0, 0, 1, 1, 1, 2, 3]],
    6: [[0, 0, 0, 1, 1, 1], [0, 1, 0, 1, 0, 1]],
    7: [[0, 0, 0, 0, 1, 1, 1], [0, 1, 2, 0, 1, 2, 0]],
}
LABELMAPS = {
    "identity": lambda k: k,
    "permuted": lambda k: (k + 1) % 4,
    "plus5": lambda k: k + 5,
    "negative": lambda k: -1 - 2 * k,
    "noncontiguous": lambda k: [3, 0, 17, 5][k],
    "large": lambda k: [10**6, 7, 2**40, 11][k],
}


def _sw(X, part):
    """Exact within-class scatter (Fractions) and number of classes."""
    D = len(X[0])
    S = [[F(0)] * D for _ in range(D)]
    classes = sorted(set(part))
    for k in classes:
        pts = [X[i] for i in range(len(X)) if part[i] == k]
        mu = [sum(F(p[d]) for p in pts) / len(pts) for d in range(D)]
        for p in pts:
            dv = [F(p[d]) - mu[d] for d in range(D)]
            for a in range(D):
                for b in range(D):
                    S[a][b] += dv[a] * dv[b]
    return S, len(classes)


def _det(M):
    M = [row[:] for row in M]
    n = len(M)
    det = F(1)
    for i in range(n):
        p = next((r for r in range(i, n) if M[r][i] != 0), None)
        if p is None:
            return F(0)
        if p != i:
            M[i], M[p] = M[p], M[i]
            det = -det
        det *= M[i][i]
        for r in range(i + 1, n):
            f = M[r][i] / M[i][i]
            for cc in range(i, n):
                M[r][cc] -= f * M[i][cc]
    return det


def cases(tier, seed):
    out = []
    for dname, rows in DATA.items():
        n = len(rows)
        comps = compositions(n)
        kinds = ["np", "list", [n], [1, n - 1], [n // 2, n - n // 2], [2, 3, n - 5]] if tier == "quick" else ["np", "list"] + [list(cp) for cp in comps if len(cp) <= 3]
        for pi in range(len(PARTS[n])):
            for lm in LABELMAPS:
                for order in ("given", "interleaved", "reversed"):
                    for kind in kinds:
                        for pinv in (False, True):
                            if tier == "quick" and pinv and (kind not in ("np", [n], [1, n - 1]) or order != "given"):
                                continue
                            if tier == "quick" and isinstance(kind, list) and kind != [n] and order != "given" and lm not in ("identity", "negative"):
                                continue
                            out.append(dict(what="wccn", data=dname, part=pi, lm=lm, order=order, kind=kind, pinv=pinv, seed=seed))
        for kind in kinds:
            for pinv in (False, True):
                for order in ("given", "reversed"):
                    out.append(dict(what="whitening", data=dname, kind=kind, pinv=pinv, order=order, seed=seed))
        # features in very different units (exact power-of-two scaling of one column): full rank, large condition number
        for kind in kinds[:3]:
            for pinv in (False, True):
                out.append(dict(what="whitening", data=dname, kind=kind, pinv=pinv, order="given", colscale=2.0**-17, seed=seed))
                out.append(dict(what="wccn", data=dname, part=0, lm="identity", order="given", kind=kind, pinv=pinv, colscale=2.0**-17, seed=seed))
        # the same data far from the origin (offset large compared with the spread): means must be removed before products are formed
        for big in (1.0e6, -3.0e6):
            for kind in kinds[:4]:
                out.append(dict(what="whitening", data=dname, kind=kind, pinv=False, order="given", big=big, seed=seed))
                out.append(dict(what="wccn", data=dname, part=0, lm="plus5", order="interleaved", kind=kind, pinv=False, big=big, seed=seed))
    return out


def _mk(X, kind):
    if kind == "np":
        return X.copy()
    if kind == "list":
        return [list(map(float, r)) for r in X]
    import dask.array as da

    return da.from_array(X.copy(), chunks=(tuple(kind), (X.shape[1],)))


def run_case(case):
    from bob.learn.em import WCCN, Whitening

    sync_dask()
    c = Ctx()
    s, o = affine(case["seed"])
    rows = DATA[case["data"]]
    n, D = len(rows), len(rows[0])
    idx = list(range(n))
    if case["order"] == "reversed":
        idx = idx[::-1]
    elif case["order"] == "interleaved":
        idx = idx[::2] + idx[1::2]
    Xi = [rows[i] for i in idx]
    # exact data actually handed to the library (dyadic scale / integer offset keep the values exactly representable)
    big = case.get("big", 0.0)
    cs = case.get("colscale", 1.0)
    X = np.array(Xi, float) * s + o + big
    X[:, -1] *= cs
    Xex = [[(F(v) * F(s) + F(o) + F(big)) * (F(cs) if d == len(r) - 1 else 1) for d, v in enumerate(r)] for r in Xi]
    tags = dict(what=case["what"], kind="dask" if isinstance(case["kind"], list) else case["kind"])
    if case["what"] == "whitening":
        mu = [sum(r[d] for r in Xex) / n for d in range(D)]
        Cx = [[sum((r[a] - mu[a]) * (r[b] - mu[b]) for r in Xex) / (n - 1) for b in range(D)] for a in range(D)]
        if _det(Cx) == 0:
            c.count("rank_deficient_excluded")
            return c.result(nontrivial=False)
        Cf = np.array([[float(v) for v in r] for r in Cx])
        cond = float(np.linalg.cond(Cf))
        rt = max(1e-9, 256 * 2.0**-52 * cond)  # inverting the matrix loses log10(cond) digits; nothing more is tolerated
        m = Whitening(pinv=case["pinv"]).fit(_mk(X, case["kind"]))
        c.transitions += 1
        W = np.asarray(m.weights, float)
        sub = np.asarray(m.input_subtract, float)
        c.check(W.shape == (D, D), "shape", f"weights shape {W.shape}", tags)
        if c.viol:
            return c.result()
        c.close(sub, np.array([float(v) for v in mu]), "whitening_mean", "input_subtract vs sample mean", tags, rtol=1e-12, scale=float(np.abs(X).max()))
        c.check(bool(np.all(np.abs(np.triu(W, 1)) <= 1e-12 * np.abs(W).max())), "triangular", lambda: f"projection is not lower-triangular: {W.tolist()}", tags)
        c.check(bool(np.all(np.diag(W) > 0)), "positive_diagonal", lambda: f"diagonal {np.diag(W).tolist()}", tags)
        Wref = np.linalg.cholesky(np.linalg.inv(Cf))
        c.close(W, Wref, "factor", "weights vs Cholesky factor of the inverse covariance (from the exact covariance)", tags, rtol=rt, scale=float(np.abs(Wref).max()) * rt / 2.0**-52, kappa=1.0)
        # whitening is unsupervised: labels handed to fit (as a pipeline would) must not change it
        ylab = np.arange(n) % 2
        m2 = Whitening(pinv=case["pinv"]).fit(_mk(X, case["kind"]), ylab)
        c.close(np.asarray(m2.weights, float), W, "labels_ignored", "Whitening.fit(X, y) vs Whitening.fit(X)", tags, rtol=1e-12)
        c.transitions += 1
        Xt = X.copy()
        Y = np.asarray(m.transform(Xt), float)
        Y2 = np.asarray(m.transform(Xt), float)
        c.check(np.array_equal(Xt, X), "transform_pure", "Whitening.transform modified its input array", tags)
        c.check(np.array_equal(Y, Y2), "transform_pure", "transforming the same array twice gives different results", tags)
        c.close(Y.mean(axis=0), np.zeros(D), "whitening_identity", "mean of the transformed training data", tags, atol=rt * float(np.abs(Wref).max()) * float(np.abs(X).max() + 1))
        c.close(np.cov(Y.T), np.eye(D), "whitening_identity", "covariance of the transformed training data", tags, rtol=rt, atol=rt)
        # history: a later fit on unusable data (non-finite value / one sample) that RAISES, caught by the caller: the trained
        # transform must still be the one it was (if the library accepts the data instead, the model legitimately changes)
        for what, badX in (("a non-finite value", np.where(np.arange(n * D).reshape(n, D) == 0, np.nan, X)), ("an infinite value", np.where(np.arange(n * D).reshape(n, D) == 1 % (n * D), np.inf, X))):
            W0, s0 = np.array(m.weights, float), np.array(m.input_subtract, float)
            try:
                import warnings

                with warnings.catch_warnings():
                    warnings.simplefilter("ignore")
                    m.fit(badX.copy())
            except Exception:  # noqa: BLE001
                Y3 = np.asarray(m.transform(X.copy()), float)
                c.check(np.array_equal(np.asarray(m.weights, float), W0) and np.array_equal(np.asarray(m.input_subtract, float), s0) and np.array_equal(Y3, Y),
                        "failed_fit_keeps_model", f"after a fit on data with {what} raised, the transform of the training data changed", tags)
                c.count("refused_fits")
            else:
                m.fit(_mk(X, case["kind"]))  # accepted: train again on the original data
            c.transitions += 1
        return c.result(nontrivial=isinstance(case["kind"], list) or case["order"] != "given", sig="wh|%s|%s|%s|%s|%s|%s" % (case["data"], case["kind"], case["pinv"], case["order"], case.get("big"), case.get("colscale")))
    part = [PARTS[n][case["part"]][i] for i in idx]
    lm = LABELMAPS[case["lm"]]
    y = [lm(k) for k in part]
    S, K = _sw(Xex, part)
    Sk = [[v / K for v in r] for r in S]
    if _det(Sk) == 0:
        c.count("rank_deficient_excluded")
        return c.result(nontrivial=False)
    Sf = np.array([[float(v) for v in r] for r in Sk])
    cond = float(np.linalg.cond(Sf))
    rt = max(1e-9, 256 * 2.0**-52 * cond)
    Wref = np.linalg.cholesky(np.linalg.inv(Sf))
    for ykind in ("array", "list"):
        yy = np.array(y) if ykind == "array" else list(y)
        if isinstance(case["kind"], list) and ykind == "list":
            continue
        m = WCCN(pinv=case["pinv"]).fit(_mk(X, case["kind"]), yy)
        c.transitions += 1
        W = np.asarray(m.weights, float)
        c.check(W.shape == (D, D), "shape", f"weights shape {W.shape}", tags)
        if c.viol:
            return c.result()
        c.check(bool(np.all(np.abs(np.triu(W, 1)) <= 1e-12 * np.abs(W).max())), "triangular", lambda: f"projection is not lower-triangular: {W.tolist()}", tags)
        c.check(bool(np.all(np.diag(W) > 0)), "positive_diagonal", lambda: f"diagonal {np.diag(W).tolist()}", tags)
        # depends only on the partition: the reference is computed from the partition alone
        c.close(W, Wref, "factor", f"weights (labels {y}) vs Cholesky factor of inv(S_w / K) of the partition", tags, rtol=rt, scale=float(np.abs(Wref).max()) * rt / 2.0**-52, kappa=1.0)
        # identity on the library's own transform output
        rows_in = [r.copy() for r in X]
        Y = np.array([np.asarray(v, float) for v in m.transform(rows_in)])
        Yb = np.array([np.asarray(v, float) for v in m.transform(rows_in)])
        c.check(all(np.array_equal(a_, b_) for a_, b_ in zip(rows_in, X)) and np.array_equal(Y, Yb), "transform_pure", "WCCN.transform modified its input or is not repeatable", tags)
        Sy = np.zeros((D, D))
        for k in sorted(set(part)):
            pts = Y[[i for i in range(n) if part[i] == k]]
            dv = pts - pts.mean(axis=0)
            Sy += dv.T @ dv
        c.close(Sy / K, np.eye(D), "wccn_identity", "within-class scatter of the transformed training data / number of classes", tags, rtol=rt, atol=rt)
    nontrivial = (K >= 2 and case["lm"] != "identity") or isinstance(case["kind"], list)
    sig = "wccn|%s|%d|%s|%s|%s|%s|%s" % (case["data"], case["part"], case["lm"], case["order"], case["kind"], case["pinv"], case.get("big")) + "|%s" % case.get("colscale")
    return c.result(nontrivial=nontrivial, sig=sig)
