"""C20 - k-means assigns to the nearest centroid; cluster-derived GMM initialisation is exact.

Case = centroid set x data set (incl. large offsets). Inside: distances / labels for the batch, for every single sample
and for every row composition of a Dask array; cluster weights and variances for every row composition; a GMM
initialised from the k-means result with 0 and 1 fitting steps. Oracle: exact rational arithmetic on the binary values
of the inputs (mc/oracle_kmeans).
"""
from fractions import Fraction as F

import numpy as np

from mc import oracle_gmm as og
from mc import oracle_kmeans as ok
from mc.util import Ctx, affine, compositions, sync_dask

PROPERTY = "C20"
RULE = (
    "complete product: data sets (D in {1,2,3}, n <= 6 plus one of 11 and one of 15 rows made of clusters of identical non-dyadic samples, offsets 0, 1000.1, 2^20, 1e6+0.1, 1e8+0.7; duplicates; a cluster that "
    "captures nothing) x centroid sets (K in {1,2,3}: data points, off-data, far away, trained by 1-2 Lloyd iterations) x "
    "{batch, every single sample, every row composition of a dask array} for transform / predict / cluster variances and "
    "weights (also two lazy results in one graph, and dask arrays whose block lengths are unknown until computed), and a k-means initialised GMM "
    "(with and without start weights given at construction) with 0 and 1 EM steps. Oracle: Fractions. Non-trivial: >= 2 clusters are "
    "non-empty and no exact tie; distinct = distinct (data, centroids)"
)
ASSUMPTIONS = [
    "exact ties between two centroids are detected in rational arithmetic, excluded and counted",
    "variances are compared up to 64 ulp of the largest squared deviation from the centroid / cluster mean (the conditioning of a one-pass centred accumulation)",
]
BUDGET = {"quick": 900, "thorough": 3 * 3600}
EPS = float(np.finfo(float).eps)

DATA = {
    "a1": [[0.0], [1.0], [2.0], [10.0], [11.0], [12.5]],
    "b1": [[0.1], [0.3], [0.7], [5.0], [5.5]],
    "c2": [[0.0, 0.0], [1.0, 0.5], [0.5, 1.0], [10.0, 10.0], [11.0, 10.5], [10.5, 11.25]],
    "d2": [[2.5, 1.0], [2.5, 1.0], [2.5, 1.0], [-3.0, 0.0]],
    "e3": [[0.0, 1.0, 2.5], [1.0, 1.0, -3.0], [10.0, 0.0, 0.5], [9.0, 2.5, 0.0], [9.5, 2.0, 0.25]],
    "f2": [[0.1, 1 / 3], [0.7, 0.2], [3.3, 2.2], [3.1, 2.9], [0.2, 0.25]],
    "h1": [[0.0], [2.0], [1.0 + 2.0**-21], [1.0 - 2.0**-21], [0.5], [1.5]],  # two samples that are *almost* equidistant from the first two points
    # three clusters of identical samples (3, 5 and 7 copies) with non-dyadic values: a centroid that is near but not on them makes
    # E[(x-c)^2] and (E[x-c])^2 agree up to rounding only, so the variance must still come out as 0, never as -1e-18
    "i2": [[0.37, -1.23]] * 3 + [[7.11, 4.93]] * 5 + [[-6.3, 9.17]] * 7,
    "g2": [[0.0, 0.0], [1.0, 0.0], [0.0, 1.0], [1.0, 1.0], [10.0, 10.0], [11.0, 10.0], [10.0, 12.0], [20.0, 0.0], [21.0, 1.0], [19.0, -1.0], [22.0, 0.0]],
}
OFFSETS = [0.0, 1000.1, 2.0**20, 1e6 + 0.1, 1e8 + 0.7]


def _centroid_sets(X, K):
    """Deterministic menu of centroid sets for a data set (before the offset is applied they are built from the data)."""
    n, D = X.shape
    lo, hi = X.min(axis=0), X.max(axis=0)
    sets = []
    idx = list(range(n))
    sets.append(X[idx[:K]].copy())
    sets.append(X[idx[-K:]].copy())
    sets.append(np.array([lo + (hi - lo) * (k + 0.25) / K for k in range(K)]))
    far = np.array([lo + (hi - lo) * (k + 0.5) / K for k in range(K)])
    far[-1] = hi + 100.0 * (1.0 + np.abs(hi - lo))  # captures nothing when K > 1
    sets.append(far)
    # trained centroids (one and two exact Lloyd steps from the first set)
    Xf = ok.to_frac(X)
    C = ok.to_frac(sets[0])
    for _ in range(2):
        C = ok.lloyd_step(Xf, C)["new"]
        sets.append(np.array(ok.fl(C)))
    return sets


def cases(tier, seed):
    out = []
    names = ["a1", "b1", "c2", "d2", "e3", "g2", "h1", "i2"] if tier == "quick" else list(DATA)
    offs = OFFSETS if tier == "thorough" else [0.0, 1000.1, 2.0**20, 1e8 + 0.7]
    for name in names:
        for off in offs:
            for K in (1, 2, 3):
                if K > len({tuple(r) for r in DATA[name]}):
                    continue
                for ci in range(6):
                    out.append(dict(data=name, off=off, K=K, cset=ci, seed=seed, tier=tier))
    return out


def run_case(case):
    from bob.learn.em import GMMMachine, KMeansMachine
    import dask.array as da

    sync_dask()
    c = Ctx()
    s, o = affine(case["seed"])
    X = np.array(DATA[case["data"]], float) * s + o + case["off"]
    n, D = X.shape
    K = case["K"]
    C0 = _centroid_sets(X, K)[case["cset"]]
    tags = dict(off=case["off"] != 0.0)
    m = KMeansMachine(K, init_method=C0.copy(), max_iter=0).fit(X)
    c.transitions += 1
    c.check(np.array_equal(np.asarray(m.centroids_), C0), "wrap", "max_iter=0 must keep the given centroids", tags)
    Xf, Cf = ok.to_frac(X), ok.to_frac(C0)
    dist = np.array([[float(ok.sqdist(x, cc)) for x in Xf] for cc in Cf])
    labels, _, tie = ok.assign(Xf, Cf)
    if tie:
        c.count("ties_excluded")
    # (1) distances: batch
    T = np.asarray(m.transform(X))
    c.check(T.shape == (K, n), "dist_shape", f"transform shape {T.shape} want {(K, n)}", tags)
    if c.viol:
        return c.result()
    c.check(bool(np.all(T >= 0)), "dist_nonneg", f"negative squared distance {T.min()!r}", tags)
    c.close(T, dist, "distances", "transform(batch) vs exact squared Euclidean distances", tags, rtol=1e-12, atol=1e-300)
    if not tie:
        P = np.asarray(m.predict(X))
        c.check(P.shape == (n,) and list(map(int, P)) == labels, "labels", lambda: f"predict {P.tolist()} want {labels}", tags)
    # (2) single samples
    for i in range(n):
        t1 = np.asarray(m.transform(X[i]))
        c.check(t1.shape == (K, 1) and bool(np.all(np.abs(t1[:, 0] - dist[:, i]) <= 1e-12 * dist[:, i] + 1e-300)), "single",
                lambda: f"transform(single sample {X[i].tolist()}) = {t1.tolist()} want {dist[:, i].tolist()}", tags)
        if not tie:
            p1 = np.asarray(m.predict(X[i]))
            c.check(p1.shape == (1,) and int(p1[0]) == labels[i], "single", lambda: f"predict(single sample) = {p1.tolist()} want {labels[i]}", tags)
        c.transitions += 2
    # (3) dask: every row composition
    if n > 8:
        comps = [(n,), (1, n - 1), (4, n - 4), tuple([1] * n), tuple([1] * (n - 2) + [2]), (3, 3, n - 6)]  # up to n single-row blocks (> 8)
    else:
        comps = compositions(n) if (n <= 5 or case["tier"] == "thorough") else [cp for cp in compositions(n) if len(cp) <= 3] + [tuple([1] * n)]
    w_f, var_f, _, _ = ok.cluster_moments(Xf, Cf)
    want_w = np.array([float(v) for v in w_f])
    want_v = np.array([[float(v) for v in row] if row is not None else [0.0] * D for row in var_f])
    dev2 = np.zeros((K, D))
    for k in range(K):
        pts = X[[i for i in range(n) if labels[i] == k]]
        if len(pts):
            dev2[k] = np.maximum(((pts - C0[k]) ** 2).max(axis=0), ((pts - pts.mean(axis=0)) ** 2).max(axis=0))
    nonempty = sum(1 for v in var_f if v is not None)

    def check_moments(v, w, what):
        v, w = np.asarray(v, float), np.asarray(w, float)
        c.check(v.shape == (K, D) and w.shape == (K,), "moments_shape", f"{what}: shapes {v.shape} {w.shape}", tags)
        if v.shape != (K, D) or w.shape != (K,):
            return
        c.close(w, want_w, "cluster_weights", f"{what}: weights vs assignment fractions", tags, rtol=1e-14)
        c.close(float(w.sum()), 1.0, "cluster_weights", f"{what}: weights sum", tags, rtol=1e-14)
        c.check(bool(np.all(v >= 0)), "variance_nonneg", lambda: f"{what}: negative cluster variance {v.tolist()}", tags)
        c.close(v, want_v, "cluster_variances", f"{what}: biased per-feature variances", tags, rtol=1e-9, scale=dev2, kappa=64.0)

    if not tie:
        v, w = m.get_variances_and_weights_for_each_cluster(X)
        check_moments(v, w, "numpy")
        c.transitions += 1
    for comp in comps:
        A = da.from_array(X.copy(), chunks=(comp, (D,)))
        L = m.transform(A)
        # the lazy result must describe itself correctly before it is computed: declared shape, and a row picked from it
        c.check(tuple(L.shape) == (K, n), "dask_lazy_shape", lambda: f"transform(dask chunks {comp}) declares shape {tuple(L.shape)}, want {(K, n)}", tags)
        if tuple(L.shape) == (K, n):
            c.close(np.asarray(L[K - 1]), dist[K - 1], "dask_lazy_shape", f"last centroid's row taken from the lazy transform (dask chunks {comp})", tags, rtol=1e-12, atol=1e-300)
        Td = np.asarray(L)
        c.close(Td, dist, "dask_distances", f"transform(dask chunks {comp})", tags, rtol=1e-12, atol=1e-300)
        if not tie:
            Pd = np.asarray(m.predict(A))
            c.check(list(map(int, Pd)) == labels, "dask_labels", lambda: f"predict(dask chunks {comp}) = {Pd.tolist()} want {labels}", tags)
            v, w = m.get_variances_and_weights_for_each_cluster(A)
            check_moments(v, w, f"dask chunks {comp}")
        c.transitions += 3
        c.states += 1
        if c.viol:
            break
    # (3b) two lazy results of one machine on different inputs with the same chunking, evaluated in one graph
    if n >= 2 and not c.viol:
        import dask

        Xr = X[::-1].copy()
        for comp in comps[:2]:
            A, B = da.from_array(X.copy(), chunks=(comp, (D,))), da.from_array(Xr, chunks=(comp, (D,)))
            ta, tb = dask.compute(m.transform(A), m.transform(B))
            c.close(np.asarray(ta), dist, "dask_joint", f"transform of two inputs in one graph (chunks {comp}): first", tags, rtol=1e-12, atol=1e-300)
            c.close(np.asarray(tb), dist[:, ::-1], "dask_joint", f"transform of two inputs in one graph (chunks {comp}): second", tags, rtol=1e-12, atol=1e-300)
            if not tie:
                pa, pb = dask.compute(m.predict(A), m.predict(B))
                c.check(list(map(int, np.asarray(pa))) == labels and list(map(int, np.asarray(pb))) == labels[::-1], "dask_joint",
                        lambda: f"predict of two inputs in one graph (chunks {comp}): {np.asarray(pa).tolist()} / {np.asarray(pb).tolist()} want {labels} / {labels[::-1]}", tags)
            c.transitions += 4
    # (3c) a dask array whose block lengths are unknown until computed (rows selected by a lazy mask)
    if not c.viol:
        for comp in comps[:3]:
            comp2 = tuple(comp) + (2,)
            Xe = np.vstack([X, X[:1] + 1.0, X[:1] - 1.0])
            keep = da.from_array(np.arange(n + 2) < n, chunks=(comp2,))
            A = da.from_array(Xe, chunks=(comp2, (D,)))[keep]
            # (transform / predict of such an array with K > 1 is refused by dask itself - vstack of unknown lengths - and not called here)
            if not tie:
                v, w = m.get_variances_and_weights_for_each_cluster(A)
                check_moments(v, w, f"masked dask array, chunks {comp2}")
                c.transitions += 1
    # (4) GMM initialised from k-means: exactly (centroids, max(variance, floor), weights); then one EM step
    if not tie and nonempty == K and not c.viol:
        kinds_g = ["np", comps[-1]]
        if np.all(X == np.round(X)) and np.abs(X).max() < 2**31:
            kinds_g.append("np_int")  # integer-valued data held in an integer array: the model must still be real-valued and exact
        for kind in kinds_g:
            A = X.copy() if kind == "np" else (X.astype(np.int64) if kind == "np_int" else da.from_array(X.copy(), chunks=(kind, (D,))))
            for floor in (None, 0.5 * s * s):
                # weights given at construction are a start value only: initialisation from k-means replaces them
                given = dict(weights=np.full(K, 1.0 / K)) if floor is not None else {}
                g = GMMMachine(K, k_means_trainer=KMeansMachine(K, init_method=C0.copy(), max_iter=0), max_fitting_steps=0,
                               update_means=True, update_variances=True, update_weights=True, **given)
                if floor is not None:
                    g.variance_thresholds = floor
                g.fit(A)
                c.transitions += 1
                fl = EPS if floor is None else floor
                c.check(np.array_equal(np.asarray(g.means), C0), "gmm_init", "GMM means must be exactly the k-means centroids", tags)
                c.close(np.asarray(g.weights, float), want_w, "gmm_init", "GMM initial weights vs assignment fractions", tags, rtol=1e-14)
                c.close(np.asarray(g.variances, float), np.maximum(want_v, fl), "gmm_init", "GMM initial variances vs max(cluster variance, floor)", tags,
                        rtol=1e-9, scale=dev2)
                if floor is not None or np.all(want_v > 1e-3 * s * s):
                    g1 = GMMMachine(K, k_means_trainer=KMeansMachine(K, init_method=C0.copy(), max_iter=0), max_fitting_steps=1, convergence_threshold=None,
                                    update_means=True, update_variances=True, update_weights=True, **given)
                    if floor is not None:
                        g1.variance_thresholds = floor
                    g1.fit(A)
                    c.transitions += 1
                    start = (want_w, C0, np.maximum(want_v, fl))
                    Xc = X - X.mean(axis=0)  # the reference step is evaluated on centred data (well conditioned), then moved back
                    st = og.stats(Xc, start[0], start[1] - X.mean(axis=0), start[2])
                    w2, mu2, var2, info = og.ml_mstep(st, start[0], start[1] - X.mean(axis=0), start[2], (1, 1, 1), EPS, fl)
                    spread = float(np.abs(Xc).max()) + 1.0
                    big = float(np.abs(X).max()) + 1.0
                    c.close(np.asarray(g1.weights, float), w2, "gmm_first_step", "weights after one EM step from the k-means start", tags, rtol=1e-7)
                    c.close(np.asarray(g1.means, float), mu2 + X.mean(axis=0), "gmm_first_step", "means after one EM step from the k-means start", tags,
                            rtol=1e-7, scale=big, atol=1e-7 * spread)
                    c.count("gmm_first_steps")
    c.traces = c.transitions
    sig = "%s|%r|%d|%d" % (case["data"], case["off"], K, case["cset"])
    return c.result(nontrivial=(nonempty >= 2 and not tie), sig=sig)
