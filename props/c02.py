"""C02 - GMM statistics are responsibility-weighted moments, additive over any split.

Case = machine x data set. Inside: the whole-set statistics against the Decimal oracle; every composition of the rows
into consecutive blocks and (n <= 4) every set partition into arbitrary blocks, folded with +, += and reduce(iadd);
transform(list); Dask input for every row composition (sub-alphabet); all unequal shape pairs for the refusal clause.
"""
import copy
import functools
import itertools
import operator
import pickle

import numpy as np

from mc import oracle_gmm as og
from mc.util import Ctx, affine, compositions, sync_dask
from props import c01

PROPERTY = "C02"
RULE = (
    "complete product: machines (4 shapes x 4 template rotations x first/middle/last weight composition x {default, matrix} "
    "floors) x data sets (all sequences of length <= 2 over the sample alphabet + named sets of 3-6 rows incl. duplicates, "
    "tails and a zero-responsibility component) ; per case every composition of the rows and, for n <= 4, every set "
    "partition, folded with +, += and reduce(iadd); dask input for all compositions on every 4th case; all unequal shape "
    "pairs. Oracle: Decimal-60 responsibilities. Non-trivial: data set has >= 2 rows (so a split with >= 2 non-empty "
    "blocks exists) and the machine has >= 2 components; distinct = distinct (machine, data set)"
)
ASSUMPTIONS = [
    "values limited to the listed alphabets (affine re-labelling by VERIF_SEED)",
    "sums over a different association order may differ by rounding: rtol 1e-12 (+64 ulp of the largest term) between split and whole",
]
BUDGET = {"quick": 900, "thorough": 3 * 3600}

SAMPLES1 = [[-3.0], [-0.5], [0.0], [1.0], [2.5], [10.0]]
SAMPLES2 = [[-3.0, 1.0], [0.0, 0.0], [2.5, -0.5], [10.0, 2.5]]
NAMED1 = {
    "blobs": [[0.0], [0.5], [1.0], [9.0], [10.0], [11.0]],
    "dups": [[2.5], [2.5], [2.5], [2.5]],
    "tail": [[0.0], [1.0], [4096.0]],
    "starve": [[-3.0], [-3.25], [-2.75], [1e3], [1.0]],
    "nondyadic": [[0.1], [1.0 / 3.0], [0.7]],
    "ints": [[400.0], [250.0], [300.0], [-380.0]],
}
NAMED2 = {
    "blobs": [[0.0, 0.0], [1.0, 0.5], [0.5, 1.0], [10.0, 10.0], [11.0, 10.5], [10.5, 11.0]],
    "const": [[1.0, 2.5], [0.0, 2.5], [-3.0, 2.5], [10.0, 2.5]],
    "dups": [[2.5, 1.0], [2.5, 1.0], [2.5, 1.0]],
    "tail": [[0.0, 0.0], [64.0, -4096.0], [1.0, 2.5]],
    "nondyadic": [[0.1, 1.0 / 3.0], [0.7, 0.2], [3.3, 2.2]],
    "ints": [[400.0, -100.0], [250.0, 300.0], [-380.0, 2.0]],
}


def _datasets(D, tier):
    S = SAMPLES1 if D == 1 else SAMPLES2
    out = {}
    for L in (1, 2) if tier == "quick" else (1, 2, 3):
        for seq in itertools.product(range(len(S)), repeat=L):
            out["seq" + "".join(map(str, seq))] = [S[i] for i in seq]
    out.update(NAMED1 if D == 1 else NAMED2)
    if D == 3:
        out = {"b3": [[0.0, 1.0, 2.5], [1.0, 1.0, -3.0], [10.0, 0.0, 0.5], [9.0, 2.5, 0.0]], "one3": [[0.0, 0.0, 0.0]]}
    return out


def set_partitions(n):
    """All set partitions of range(n) (restricted growth strings), blocks in order of first element."""
    out = []

    def rec(i, assign, k):
        if i == n:
            blocks = [[] for _ in range(k)]
            for idx, b in enumerate(assign):
                blocks[b].append(idx)
            out.append(blocks)
            return
        for b in range(k + 1):
            rec(i + 1, assign + [b], max(k, b + 1))

    rec(0, [], 0)
    return out


def cases(tier, seed):
    out = []
    shapes = [(1, 1), (2, 1), (2, 2), (3, 2)] if tier == "quick" else [(1, 1), (2, 1), (3, 1), (2, 2), (3, 2), (2, 3)]
    k = 0
    for C, D in shapes:
        ws = c01._weights(C)
        ws = [ws[0], ws[len(ws) // 2], ws[-1]] if len(ws) > 3 else ws
        if C >= 2:
            ws = ws + [[0.625] + [0.0] * (C - 2) + [0.375]] if C > 2 else ws + [[1.0, 0.0]]  # a pruned component (weight exactly 0)
        rots = [(0, 0), (1, 2), (3, 4), (2, 1)] if tier == "quick" else [(i, j) for i in range(5) for j in range(5) if (i + 2 * j) % 3 == 0]
        for i, j in rots:
            for w in ws:
                for floor in ("default", "matrix"):
                    for name in _datasets(D, tier):
                        k += 1
                        out.append(dict(C=C, D=D, i=i, j=j, w=w, floor=floor, data=name, dask=(k % 5 == 0), seed=seed, tier=tier))
    for N in (2**15, 2**15 + 1, 40001, 2**16 + 5):
        for floor in ("default", "matrix"):
            out.append(dict(long=N, C=2, D=2, i=1, j=2, w=[0.375, 0.625], floor=floor, seed=seed, tier=tier))
    for a, b in itertools.permutations([(1, 1), (2, 1), (1, 2), (2, 2), (3, 2)], 2):
        out.append(dict(refusal=[list(a), list(b)], seed=seed, tier=tier))
    return out


def _fields(st):
    return dict(t=int(st.t), n=np.asarray(st.n, float), px=np.asarray(st.sum_px, float), pxx=np.asarray(st.sum_pxx, float),
                ll=float(np.asarray(st.log_likelihood)))


def _same(c, got, want, sub, what, tags, scale):
    ok = got["t"] == want["t"]
    c.check(ok, sub, f"{what}: t={got['t']} want {want['t']}", tags)
    for k, sc in (("n", 1.0), ("px", scale), ("pxx", scale * scale), ("ll", abs(want["ll"]) * 2.0**-6 + 1.0)):
        c.close(got[k], want[k], sub, f"{what}: {k}", tags, rtol=1e-12, scale=sc * max(1, want["t"]))


def _snap(st):
    return pickle.dumps((int(st.t), np.asarray(st.n).tobytes(), np.asarray(st.sum_px).tobytes(), np.asarray(st.sum_pxx).tobytes(),
                         float(st.log_likelihood)))


def _refusal(case):
    from bob.learn.em import GMMStats

    c = Ctx()
    (ca, da_), (cb, db_) = case["refusal"]
    for op in ("add", "iadd"):
        a, b = GMMStats(ca, da_), GMMStats(cb, db_)
        a.n = a.n + 1.5
        a.t = 3
        b.sum_px = b.sum_px + 2.0
        b.t = 2
        sa, sb = _snap(a), _snap(b)
        try:
            if op == "add":
                a + b
            else:
                a += b
            raised = None
        except ValueError:
            raised = "ValueError"
        except Exception as e:  # any other exception type is not the documented refusal
            raised = type(e).__name__
        c.check(raised == "ValueError", "refusal", f"{op} of shapes {(ca, da_)} and {(cb, db_)}: raised {raised}", dict(op=op))
        c.check(_snap(a) == sa and _snap(b) == sb, "refusal_intact", f"{op} of mismatched shapes modified an operand", dict(op=op))
        c.transitions += 1
    return c.result(nontrivial=True, sig="refusal%r" % (case["refusal"],))


def _long(case):
    """One long in-memory batch (lengths around 2^15 and 2^16, where an implementation may start to work in slabs): equals
    multiplicity x per-row statistics from the Decimal oracle, and the sum of the statistics of its two parts for every cut."""
    import dask.array as da
    from decimal import Decimal as Dc

    sync_dask()
    c = Ctx()
    m, mu, var, floor, s, o = c01.build(case)
    C, D = case["C"], case["D"]
    base = np.array(NAMED2["blobs"] + NAMED2["nondyadic"], dtype=float) * s + o
    N = case["long"]
    idx = (np.arange(N) * 7) % len(base)
    X = base[idx]
    vis, w = np.array(m.variances, float), np.array(m.weights, float)
    mult = np.bincount(idx, minlength=len(base))
    R = np.empty((C, len(base)))
    totd = Dc(0)
    for i in range(len(base)):
        r, t = og.dec_resp(og.dec_lwl(base[i], w, mu, vis))
        R[:, i] = [float(v) for v in r]
        totd += t * int(mult[i])
    Rm = R * mult
    want = dict(t=N, n=Rm.sum(axis=1), px=Rm @ base, pxx=Rm @ (base * base), ll=float(totd))
    tags = dict(floor=case["floor"], long=N)
    scale = float(np.abs(base).max()) + 1.0

    def same(got, what):
        c.check(got["t"] == N, "long_batch", f"{what}: t={got['t']} want {N}", tags)
        for k, sc in (("n", N), ("px", scale * N), ("pxx", scale * scale * N), ("ll", abs(want["ll"]) + N)):
            c.close(got[k], want[k], "long_batch", f"{what}: {k}", tags, rtol=1e-10, scale=sc)

    whole = m.acc_stats(X)
    same(_fields(whole), f"acc_stats of a batch of {N} rows")
    c.transitions += 1
    for cut in (1, 2**15 - 1, 2**15, 2**15 + 1, N // 2, N - 1):
        if 0 < cut < N:
            same(_fields(m.acc_stats(X[:cut]) + m.acc_stats(X[cut:])), f"rows [:{cut}] + rows [{cut}:] of {N}")
            c.transitions += 2
    same(_fields(m.acc_stats(da.from_array(X, chunks=(2**15 + 3, D)))), f"dask batch of {N} rows in chunks of 2^15+3")
    c.transitions += 1
    c.states = 8
    c.traces = c.transitions
    return c.result(nontrivial=True, sig="long|%d|%s" % (N, case["floor"]))


def run_case(case):
    if "refusal" in case:
        return _refusal(case)
    if "long" in case:
        return _long(case)
    sync_dask()
    c = Ctx()
    m, mu, var, floor, s, o = c01.build(case)
    C, D = case["C"], case["D"]
    if case["j"] % 2 == 1:
        m.mean_var_update_threshold = 0.05  # a training setting: the statistics must not depend on it
    X = np.array(_datasets(D, case["tier"])[case["data"]], dtype=float) * s + o
    n = len(X)
    tags = dict(floor=case["floor"])
    vis = np.array(m.variances, float)
    w = np.array(m.weights, float)
    # oracle
    R = np.empty((C, n))
    tot = 0.0
    from decimal import Decimal as Dc

    totd = Dc(0)
    for i in range(n):
        r, t = og.dec_resp(og.dec_lwl(X[i], w, mu, vis))
        R[:, i] = [float(v) for v in r]
        totd += t
    want = dict(t=n, n=R.sum(axis=1), px=R @ X, pxx=R @ (X * X), ll=float(totd))
    scale = float(np.abs(X).max()) + 1.0
    st = m.acc_stats(X)
    c.transitions += 1
    got = _fields(st)
    c.check(got["n"].shape == (C,) and got["px"].shape == (C, D) and got["pxx"].shape == (C, D), "shape", "statistics shapes", tags)
    if c.viol:
        return c.result()
    c.check(got["t"] == n, "moments", f"t={got['t']} for {n} samples", tags)
    c.check(bool(np.all(got["n"] >= 0)), "moments", f"negative responsibility mass {got['n']}", tags)
    c.close(got["n"].sum(), float(n), "moments", "sum of responsibility masses vs sample count", tags, rtol=1e-12)
    c.close(got["n"], want["n"], "moments", "n vs Decimal responsibilities", tags)
    c.close(got["px"], want["px"], "moments", "sum_px", tags, scale=scale * n)
    c.close(got["pxx"], want["pxx"], "moments", "sum_pxx", tags, scale=scale * scale * n)
    c.close(got["ll"], want["ll"], "moments", "log_likelihood", tags, scale=abs(want["ll"]) * 2.0**-8)
    # transform(list) == acc_stats per element
    parts = [X[:1], X[:0], X, X[:0]] if n > 1 else [X[:0], X]  # includes samples without any frame
    tr = m.transform([p.copy() for p in parts])
    c.check(isinstance(tr, list) and len(tr) == len(parts), "transform", "transform(list) must return one statistics object per element", tags)
    if not c.viol:
        for p, t_ in zip(parts, tr):
            _same(c, _fields(t_), _fields(m.acc_stats(p)), "transform", f"transform element with {len(p)} rows", tags, scale)
    # a single sample given as a 1-D feature vector, and transform() of a 2-D array (one statistics object per row)
    rows1 = [_fields(m.acc_stats(X[i])) for i in range(n)]
    rows2 = [_fields(m.acc_stats(X[i : i + 1])) for i in range(n)]
    for i in range(n):
        _same(c, rows1[i], rows2[i], "single_vector", f"acc_stats of row {i} given as a 1-D vector vs as a 1-row batch", tags, scale)
    per_row = m.transform(X.copy())
    c.check(isinstance(per_row, list) and len(per_row) == n, "transform", "transform(2-D array) must return one statistics object per row", tags)
    if isinstance(per_row, list) and len(per_row) == n:
        for i in range(n):
            _same(c, _fields(per_row[i]), rows2[i], "transform", f"transform(2-D array) element {i} vs acc_stats of that row", tags, scale)
    c.transitions += 2 * n + 1
    # the same values presented in other dtypes (integer-valued data sets only): results must not depend on the container type
    if np.all(X == np.round(X)) and np.abs(X).max() < 2**15:
        for dt in ("int16", "int32", "int64", "float32"):
            sd_ = m.acc_stats(X.astype(dt))
            _same(c, _fields(sd_), got, "dtype", f"input dtype {dt}", dict(tags, dtype=dt), scale)
            c.transitions += 1
        c.count("dtype_variants", 4)
    # splits
    blocksets = [[list(range(sum(comp[:i]), sum(comp[: i + 1]))) for i in range(len(comp))] for comp in compositions(n)]
    if n <= 4:
        blocksets += [bl for bl in set_partitions(n) if bl not in blocksets]
    nsplit = 0
    for blocks in blocksets:
        pieces = [m.acc_stats(X[b]) for b in blocks]
        snaps = [_snap(p) for p in pieces]
        c.transitions += len(blocks)
        # fold with +
        acc = pieces[0]
        for p in pieces[1:]:
            acc = acc + p
        _same(c, _fields(acc), got, "split_add", f"blocks {blocks} folded with +", tags, scale)
        c.check([_snap(p) for p in pieces] == snaps, "add_pure", f"+ modified an operand (blocks {blocks})", tags)
        if len(pieces) > 1:
            c.check(acc is not pieces[0] and not np.shares_memory(acc.n, pieces[0].n) and not np.shares_memory(acc.sum_px, pieces[-1].sum_px),
                    "add_pure", "result of + aliases an operand", tags)
        # fold with += on copies
        cp = [copy.deepcopy(p) for p in pieces]
        acc2 = cp[0]
        for p in cp[1:]:
            acc2 += p
        _same(c, _fields(acc2), got, "split_iadd", f"blocks {blocks} folded with +=", tags, scale)
        c.check([_snap(p) for p in cp[1:]] == snaps[1:], "iadd_rhs", "+= modified its right operand", tags)
        acc3 = functools.reduce(operator.iadd, [copy.deepcopy(p) for p in pieces])
        _same(c, _fields(acc3), got, "split_iadd", f"blocks {blocks} reduce(iadd)", tags, scale)
        # accumulate into an initially empty container; afterwards every block must still be what it was
        from bob.learn.em import GMMStats

        cp4 = [copy.deepcopy(p) for p in pieces]
        acc4 = GMMStats(C, D)
        for p in cp4:
            acc4 += p
        _same(c, _fields(acc4), got, "split_iadd", f"blocks {blocks} added with += into an empty GMMStats", tags, scale)
        c.check([_snap(p) for p in cp4] == snaps, "iadd_rhs", f"+= into an empty accumulator modified a right operand (blocks {blocks})", tags)
        if len(pieces) > 1:
            acc6 = GMMStats(C, D) + pieces[0]  # a sum started from an empty container and continued in place
            for p in pieces[1:]:
                acc6 += p
            _same(c, _fields(acc6), got, "split_iadd", f"blocks {blocks}: empty + first block, then += the rest", tags, scale)
            c.check([_snap(p) for p in pieces] == snaps, "add_pure", f"continuing a sum in place modified the first operand of + (blocks {blocks})", tags)
        acc5 = GMMStats(C, D)
        for p in pieces:
            acc5 = acc5 + p
        _same(c, _fields(acc5), got, "split_add", f"blocks {blocks} added with + onto an empty GMMStats", tags, scale)
        c.check([_snap(p) for p in pieces] == snaps, "add_pure", f"+ onto an empty accumulator modified an operand (blocks {blocks})", tags)
        nsplit += 1
        if c.viol:
            break
    c.count("splits", nsplit)
    if case["dask"] and n <= 4 and not c.viol:
        import dask.array as da

        for comp in compositions(n):
            sd = m.acc_stats(da.from_array(X.copy(), chunks=(comp, (D,))))
            _same(c, _fields(sd), got, "dask", f"dask chunks {comp}", tags, scale)
            c.transitions += 1
            c.count("dask_layouts")
    c.states = nsplit + 1
    c.traces = c.transitions
    sig = "%d|%d|%d|%d|%r|%s|%s" % (C, D, case["i"], case["j"], case["w"], case["floor"], case["data"])
    return c.result(nontrivial=(n >= 2 and C >= 2), sig=sig)
