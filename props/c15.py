"""C15 - training is equivariant, scoring invariant, under affine feature rescaling / shift.

Metamorphic check on the real code: every configuration is run twice, on the original features and on x -> a*x + b per
feature (data, initial / prior parameters, floors, subspaces and statistics transformed accordingly), and the results
are compared: means a*mu+b, variances a^2*v, weights equal, log-likelihood shifted by -sum(log|a|), linear / ISV / JFA
scores, latent factors and i-vectors equal, enrolled client means follow the features; k-means centroids follow
quarter-turn rotations, the integer similarity (x,y)->(x-y,x+y), uniform scalings and translations.
"""
import copy
import itertools

import numpy as np

from mc import oracle_gmm as og
from mc.util import Ctx, affine, sync_dask
from props import c11

PROPERTY = "C15"
RULE = (
    "complete product: family {GMM-ML (data x start x 8 switch sets x floors), GMM-MAP (x relevance), k-means (data x init x "
    "threshold), linear scoring, ISV, JFA (enrol / score / fit), i-vector (project / EM steps)} x affine maps a in {2, -1/2, "
    "(2^10, 2^-10), (-3, 1/4)} x b in {0, (5,-7), (2^10, 1/8), (2^17, -2^18)}; k-means additionally the 4 quarter turns, "
    "(x,y)->(x-y,x+y) and uniform scalings 2^-10, 2^10. Non-trivial: the map is not the identity and the training moved the "
    "model; distinct = distinct (family, configuration, map)"
)
ASSUMPTIONS = [
    "explicit variance floors are transformed with the features (a^2 * floor); the default machine-epsilon floor is a fixed constant of the library and is kept inactive",
    "i-vector training is exercised through the module's public e_step / m_step functions (fit() draws its start from the global generator and cannot be given a transformed start)",
    "a MAP variance mismatch is attributed to known finding K1 only if both sides individually equal the defective formula",
]
BUDGET = {"quick": 900, "thorough": 3 * 3600}
EPS = float(np.finfo(float).eps)

AS = [[2.0, 2.0], [-0.5, -0.5], [2.0**10, 2.0**-10], [-3.0, 0.25], [2.0**-32, -(2.0**-32)]]  # the last one: every feature in tiny units
BS = [[0.0, 0.0], [5.0, -7.0], [2.0**10, 0.125], [2.0**17, -(2.0**18)]]
MAPS = [(a, b) for a in AS for b in BS]

GDATA = {
    "blobs": [[0.0, 0.0], [1.0, 0.5], [0.5, 1.0], [10.0, 10.0], [11.0, 10.5], [10.5, 11.0], [5.0, 4.0]],
    "skew": [[0.0, 1.0], [0.25, 8.0], [0.5, -6.0], [0.75, 3.0], [4.0, 2.0], [4.5, 2.5]],
    "starve": [[0.0, 0.0], [1.0, 0.5], [0.5, 1.0], [0.25, 0.75], [1.5, 0.0]],
}
GSTART = [
    dict(mu=[[0.0, 0.0], [1.0, 1.0]], var=[[4.0, 4.0], [4.0, 4.0]], w=[0.25, 0.75]),
    dict(mu=[[0.0, 1.0], [10.0, 2.5]], var=[[1.0, 0.25], [4.0, 16.0]], w=[0.5, 0.5]),
    dict(mu=[[0.5, 0.5], [300.0, -400.0]], var=[[1.0, 1.0], [1.0, 1.0]], w=[0.5, 0.5]),
]
SWITCHES = [(a, b, c_) for a in (1, 0) for b in (1, 0) for c_ in (1, 0)]
KDATA = {
    "f2": [[0, 0], [0, 4], [3, 0], [3, 4], [8, 2], [9, 3], [20, 0]],
    "g2": [[-3, 1], [-0.5, 2.5], [0, 0], [1, -3], [2.5, 10], [10, 1], [9, 2]],
    "small": [[0.0, 0.0], [0.125, 0.5], [0.5, 0.125], [0.375, 0.375], [0.75, 0.5], [0.625, 0.75], [0.25, 0.125]],
}
KLIN = [("rot90", [[0, -1], [1, 0]]), ("rot180", [[-1, 0], [0, -1]]), ("rot270", [[0, 1], [-1, 0]]), ("sim45", [[1, -1], [1, 1]]),
        ("scale_up", [[2.0**10, 0], [0, 2.0**10]]), ("scale_down", [[2.0**-10, 0], [0, 2.0**-10]]), ("flip", [[1, 0], [0, -1]]),
        ("scale_tiny", [[2.0**-22, 0], [0, 2.0**-22]])]


def cases(tier, seed):
    out = []
    maps = list(range(len(MAPS)))
    for mi in maps:
        for dname in GDATA:
            for si in range(len(GSTART)):
                for sw in SWITCHES:
                    for floor in ("tiny", "half"):
                        if tier == "quick" and (mi + si + sum(sw) + (floor == "half")) % 3:
                            continue
                        out.append(dict(fam="gmm_ml", data=dname, start=si, sw=list(sw), floor=floor, map=mi, seed=seed))
                    for rel in (4.0, None):
                        if tier == "quick" and (mi + si + sum(sw) + (rel is None)) % 3:
                            continue
                        out.append(dict(fam="gmm_map", data=dname, start=si, sw=list(sw), rel=rel, map=mi, seed=seed))
        for cfg in range(4):
            out.append(dict(fam="linear", cfg=cfg, map=mi, seed=seed))
            for kind in ("isv", "jfa"):
                out.append(dict(fam="fa", kind=kind, cfg=cfg, map=mi, seed=seed))
            out.append(dict(fam="ivector", cfg=cfg, map=mi, seed=seed))
    for dname in KDATA:
        for ii in range(3):
            for thr in (None, 1e-3, 0.1):
                for li in range(len(KLIN)):
                    for bi in range(len(BS)):
                        if tier == "quick" and (li + bi + ii) % 2:
                            continue
                        out.append(dict(fam="kmeans", data=dname, init=ii, thr=thr, lin=li, shift=bi, seed=seed))
                        if thr != 0.1 and (li + 2 * bi) % 3 == 0:
                            out.append(dict(fam="kmeans", data=dname, init=3, thr=thr, lin=li, shift=bi, seed=seed, kind="dask" if (li + bi) % 2 else "np"))
                            out.append(dict(fam="kmeans", data=dname, init=ii, thr=thr, lin=li, shift=bi, seed=seed, reuse=True, kind="dask" if bi % 2 else "np"))
    return out


# ----------------------------------------------------------------------------------------------------------- helpers
def _gmm(w, mu, var, floor=None, **kw):
    from bob.learn.em import GMMMachine

    g = GMMMachine(len(w), weights=np.array(w, float), **kw)
    g.means = np.array(mu, float)
    if floor is not None:
        g.variance_thresholds = np.array(floor, float)
    g.variances = np.array(var, float)
    return g


def _cmp_gmm(c, A, B, a, b, tags, what, sc, rt=1e-8):
    wa, ma, va = np.asarray(A.weights, float), np.asarray(A.means, float), np.asarray(A.variances, float)
    wb, mb, vb = np.asarray(B.weights, float), np.asarray(B.means, float), np.asarray(B.variances, float)
    # all comparisons are made in the original units (the transformed result is mapped back), so that the tolerance
    # `rtol * max(1, |want|)` cannot become vacuous for quantities that are tiny or huge in the new units
    ok = c.close(wb, wa, "weights_invariant", f"{what}: weights on transformed features vs original", tags, rtol=rt)
    ok &= c.close((mb - b) / a, ma, "means_equivariant", f"{what}: means on transformed features, mapped back, vs original", tags, rtol=rt, scale=sc + np.abs(b / a), kappa=256)  # the transformed inputs themselves are quantised at eps*|b/a| in original units
    ok &= c.close(vb / (a * a), va, "variances_equivariant", f"{what}: variances on transformed features / a^2 vs original", tags, rtol=10 * rt, scale=sc * sc, kappa=1e4)
    return ok


def _gmm_case(case, c, s, o):
    from bob.learn.em import GMMMachine

    a, b = np.array(MAPS[case["map"]][0]), np.array(MAPS[case["map"]][1])
    X = np.array(GDATA[case["data"]], float) * s + o
    st = GSTART[case["start"]]
    mu0, var0 = np.array(st["mu"], float) * s + o, np.array(st["var"], float) * s * s
    sw = case["sw"]
    Xb = X * a + b
    sc = float(np.abs(X).max()) + 1.0
    tags = dict(fam=case["fam"], sw="".join(map(str, sw)))
    moved = False
    is_map = case["fam"] == "gmm_map"
    # GMM statistics are raw moments (sums of x and x^2): a variance derived from them carries a relative error of about
    # eps * max(x^2) / variance. Maps that push this beyond 1e-9 (tiny scale combined with a huge shift) are outside what
    # float64 statistics can represent; they are counted, not asserted (scores and k-means are still checked on them).
    cond = EPS * float(((np.abs(Xb).max(axis=0)) ** 2 / (np.minimum(var0.min(axis=0), np.var(X, axis=0) + 1e-300) * a * a)).max())
    if cond > 1e-9:
        c.count("ill_conditioned_raw_moments")
        return False
    rt = max(1e-8, 1e3 * cond)
    K = 1 if (is_map and sw[1]) else 3
    for k in range(1, K + 1):
        kw = dict(update_means=bool(sw[0]), update_variances=bool(sw[1]), update_weights=bool(sw[2]), max_fitting_steps=k, convergence_threshold=None)
        if not is_map:
            fl = np.full(2, (2.0**-40 if case["floor"] == "tiny" else 0.5) * s * s)
            A = _gmm(st["w"], mu0, var0, fl, **kw)
            B = _gmm(st["w"], mu0 * a + b, var0 * a * a, fl * a * a, **kw)
        else:
            fl = np.full(2, 2.0**-40 * s * s)
            ua, ub = _gmm(st["w"], mu0, var0, fl), _gmm(st["w"], mu0 * a + b, var0 * a * a, fl * a * a)
            A = GMMMachine(2, trainer="map", ubm=ua, map_relevance_factor=case["rel"], map_alpha=0.25, **kw)
            B = GMMMachine(2, trainer="map", ubm=ub, map_relevance_factor=case["rel"], map_alpha=0.25, **kw)
        A.fit(X.copy())
        B.fit(Xb.copy())
        c.transitions += 2
        vmin = np.asarray(B.variances, float).min(axis=0)
        if not (is_map and sw[1]) and np.all(np.isfinite(vmin)) and EPS * float((np.abs(Xb).max(axis=0) ** 2 / np.maximum(vmin, 1e-300)).max()) > 1e-9:
            # a component collapsed (variance at rounding-noise level of the raw moments): same exclusion as above
            c.count("ill_conditioned_raw_moments")
            break
        if is_map and sw[1]:
            # classification of known finding K1: both sides individually equal the formula with the prior mean unsquared
            va, vb = np.asarray(A.variances, float), np.asarray(B.variances, float)
            if not np.allclose(vb / (a * a), va, rtol=1e-7, atol=1e-9 * sc * sc):
                def defective(P, data):
                    prior = (np.asarray(P.ubm.weights, float), np.asarray(P.ubm.means, float), np.asarray(P.ubm.variances, float))
                    stt = og.stats(data, *prior)
                    return og.map_mstep(stt, prior, prior, tuple(sw), case["rel"], 0.25, EPS, np.asarray(P.variance_thresholds, float), unsquared_prior_mean=True)[2]

                k1 = np.allclose(va, defective(A, X), rtol=1e-8, atol=1e-300) and np.allclose(vb, defective(B, Xb), rtol=1e-8, atol=1e-300)
                c.check(False, "map_variances_equivariant", f"MAP variances on transformed features {vb.tolist()} vs a^2 * {va.tolist()}",
                        dict(matches_formula="prior_mean_unsquared") if k1 else tags)
                break
            c.close(np.asarray(B.weights, float), np.asarray(A.weights, float), "weights_invariant", "MAP weights", tags, rtol=rt)
            c.close((np.asarray(B.means, float) - b) / a, np.asarray(A.means, float), "means_equivariant", "MAP means mapped back", tags, rtol=rt, scale=sc + np.abs(b / a), kappa=256)
        else:
            if not _cmp_gmm(c, A, B, a, b, tags, f"after {k} iterations", sc, rt):
                break
            la, lb = np.asarray(A.log_likelihood(X), float), np.asarray(B.log_likelihood(Xb), float)
            c.close(lb, la - float(np.log(np.abs(a)).sum()), "loglik_shift", f"log-likelihood on transformed features vs original - sum(log|a|) after {k} iterations", tags,
                    rtol=max(1e-7, 100 * rt), scale=np.abs(la).max() * 1e-3 + 1)
        if k == 1 and float(np.abs(np.asarray(A.means) - mu0).max() + np.abs(np.asarray(A.variances) - var0).max() + np.abs(np.asarray(A.weights) - np.array(st["w"])).max()) > 1e-6:
            moved = True
        c.states += 1
    return moved


def _kmeans_case(case, c, s, o):
    from bob.learn.em import KMeansMachine

    X = np.array(KDATA[case["data"]], float) * s + o
    L = np.array(KLIN[case["lin"]][1], float)
    sh = np.array(BS[case["shift"]])
    inits = [X[[0, 3]], X[[1, 5]] + 0.25 * s, np.array([X.min(axis=0) - 1.0 * s, X.mean(axis=0), X.max(axis=0) + 0.5 * s]),
             np.array([X[0], X[3], X.max(axis=0) + 100.0 * s])]  # the last start has a centroid that attracts nothing
    C0 = inits[case["init"]]
    T = lambda P: P @ L.T + sh  # noqa: E731
    kw = dict(max_iter=6, convergence_threshold=case["thr"])
    if case.get("kind") == "dask":
        import dask.array as da

        from mc.util import sync_dask

        sync_dask()
        mk = lambda P: da.from_array(np.array(P, float), chunks=((3, len(P) - 3), (2,)))  # noqa: E731
    else:
        mk = lambda P: np.array(P, float)  # noqa: E731

    class _R:  # results of one fit, detached from the estimator object
        def __init__(self, m):
            self.centroids_, self.average_min_distance = np.array(m.centroids_, float), float(m.average_min_distance)

    if case.get("reuse"):
        # ONE estimator object (seeded random start: the same rows are drawn on both sides) trained on the data, then on the transformed data
        M = KMeansMachine(len(C0), init_method="random", random_state=3, **kw)
        A = _R(M.fit(mk(X)))
        B = _R(M.fit(mk(T(X))))
        C0 = np.array(KMeansMachine(len(C0), init_method="random", random_state=3, max_iter=0).fit(mk(X)).centroids_, float)
    else:
        A = _R(KMeansMachine(len(C0), init_method=C0.copy(), **kw).fit(mk(X)))
        B = _R(KMeansMachine(len(C0), init_method=T(C0), **kw).fit(mk(T(X))))
    c.transitions += 2
    tags = dict(fam="kmeans", lin=KLIN[case["lin"]][0])
    sc = float(np.abs(L).max()) * (float(np.abs(X).max()) + 1.0)
    Linv = np.linalg.inv(L)
    back = (np.asarray(B.centroids_, float) - sh) @ Linv.T
    sc0 = float(np.abs(X).max()) + 1.0
    c.close(back, np.asarray(A.centroids_, float), "centroids_equivariant",
            f"centroids of the transformed data, mapped back, vs original centroids (threshold {case['thr']})", tags, rtol=1e-9,
            scale=sc0 + float(np.abs(sh @ Linv.T).max()), kappa=256)  # input quantisation: eps * |shift| in original units
    det = abs(float(np.linalg.det(L)))
    c.close(float(B.average_min_distance) / det, float(A.average_min_distance), "criterion_scales", "reported criterion scales with the squared length scale", tags, rtol=1e-8,
            scale=sc0 * sc0 + float(np.abs(sh @ Linv.T).max()) * sc0, kappa=256)
    return float(np.abs(np.asarray(A.centroids_) - C0).max()) > 1e-9


def _fa_world(case, s, o):
    cfg = case["cfg"]
    ubm = c11._ubm(c11.UBMS[0], s, o)
    C, D = ubm.means.shape
    frames = [np.array(f, float)[:, :D] * s + o for f in c11.FRAMES]
    return ubm, frames, cfg


def _tr_ubm(ubm, a, b):
    # the variance floor travels with the units (a^2 * floor); the library's default floor is an absolute machine epsilon
    return _gmm(np.asarray(ubm.weights, float), np.asarray(ubm.means, float) * a + b, np.asarray(ubm.variances, float) * a * a, floor=a * a * 2.0**-60)


def _shift_ratio(a, b, s):
    """Statistics are raw sums: F - N*m is formed from numbers of size |b|*N, so every quantity built from it carries a
    relative error of about eps * |b| / (|a| * unit). The comparisons scale their absolute tolerance with this ratio."""
    return 1.0 + float(np.max(np.abs(b) / (np.abs(a) * s)))


def _linear_case(case, c, s, o):
    from bob.learn.em import linear_scoring

    a, b = np.array(MAPS[case["map"]][0]), np.array(MAPS[case["map"]][1])
    ubm, frames, cfg = _fa_world(case, s, o)
    ub = _tr_ubm(ubm, a, b)
    um = np.asarray(ubm.means, float)
    d1 = c11._pattern(um.shape, cfg, s) * 0.5
    d2 = c11._pattern(um.shape, cfg + 1, s) * 0.25
    models = np.array([um + d1, um + d2, um - d1 + d2])
    off = c11._pattern(um.shape, cfg + 2, s) * 0.125
    sa = [ubm.acc_stats(f) for f in frames[:3]]
    sb = [ub.acc_stats(f * a + b) for f in frames[:3]]
    tags = dict(fam="linear")
    for norm in (False, True):
        for use_off in (False, True):
            ra = np.asarray(linear_scoring(models, ubm, sa, off if use_off else 0, norm))
            rb = np.asarray(linear_scoring(models * a + b, ub, sb, off * a if use_off else 0, norm))
            c.transitions += 2
            c.close(rb, ra, "linear_score_invariant", f"linear scores on transformed features (norm={norm}, offsets={use_off}) vs original", tags, rtol=1e-7,
                    scale=(float(np.abs(ra).max()) + 1e-9) * _shift_ratio(a, b, s), kappa=1024)
    return True


def _fa_case(case, c, s, o):
    from bob.learn.em import ISVMachine, JFAMachine

    a, b = np.array(MAPS[case["map"]][0]), np.array(MAPS[case["map"]][1])
    ubm, frames, cfg = _fa_world(case, s, o)
    ub = _tr_ubm(ubm, a, b)
    C, D = ubm.means.shape
    arow = np.tile(a, C)  # per supervector row
    kind = case["kind"]
    rU, rV = 1 + cfg % 2, 1 + (cfg // 2) % 2

    def mk(u, scale_rows):
        if kind == "isv":
            m = ISVMachine(r_U=rU, ubm=u, em_iterations=2, enroll_iterations=3, random_state=0)
        else:
            m = JFAMachine(r_U=rU, r_V=rV, ubm=u, em_iterations=2, enroll_iterations=3, random_state=0)
            m.V = c11._pattern((C * D, rV), cfg + 1, s) * scale_rows[:, None]
        m.U = c11._pattern((C * D, rU), cfg, s) * scale_rows[:, None]
        m.D = (np.abs(c11._pattern((C * D,), cfg + 2, s)) + 0.5 * s) * scale_rows
        return m

    A, B = mk(ubm, np.ones(C * D)), mk(ub, arow)
    sa = [ubm.acc_stats(f) for f in frames]
    sb = [ub.acc_stats(f * a + b) for f in frames]
    tags = dict(fam=kind)
    R = _shift_ratio(a, b, s)
    ea, eb = A.enroll(copy.deepcopy(sa[:2])), B.enroll(copy.deepcopy(sb[:2]))
    c.transitions += 2
    fa_ = ea if isinstance(ea, tuple) else (ea,)
    fb_ = eb if isinstance(eb, tuple) else (eb,)
    for nm, x1, x2 in zip(("y", "z") if kind == "jfa" else ("z",), fa_, fb_):
        c.close(np.asarray(x2, float).ravel(), np.asarray(x1, float).ravel(), "factors_invariant", f"enrolled factor {nm} on transformed features vs original", tags, rtol=1e-7, scale=R, kappa=4096)
    xa, xb = np.asarray(A.estimate_x(sa[2:4]), float), np.asarray(B.estimate_x(sb[2:4]), float)
    c.close(xb, xa, "factors_invariant", "channel factor x of a probe", tags, rtol=1e-7, scale=R, kappa=4096)
    uxa, uxb = np.asarray(A.estimate_ux(sa[2:4]), float), np.asarray(B.estimate_ux(sb[2:4]), float)
    c.close(uxb / arow, uxa, "offset_follows_features", "channel offset U x (mapped back) follows the feature scale", tags, rtol=1e-7, scale=(float(np.abs(uxa).max()) + 1e-9) * R, kappa=4096)
    sca, scb = float(A.score(ea, copy.deepcopy(sa[2:4]))), float(B.score(eb, copy.deepcopy(sb[2:4])))
    c.close(scb, sca, "score_invariant", f"{kind} score on transformed features vs original", tags, rtol=1e-7, scale=(abs(sca) + 1e-6) * R, kappa=4096)
    c.transitions += 6
    # training
    y = np.array([0, 1, 0, 1])
    A.fit(copy.deepcopy(sa), y)
    B.fit(copy.deepcopy(sb), y)
    c.transitions += 2
    for nm in ("U", "V", "D") if kind == "jfa" else ("U",):
        va, vb = np.asarray(getattr(A, nm), float), np.asarray(getattr(B, nm), float)
        back = vb / (arow[:, None] if va.ndim == 2 else arow)
        c.close(back, va, "subspace_equivariant", f"trained {nm} on transformed features (rows mapped back) vs original", tags, rtol=1e-6,
                scale=(float(np.abs(va).max()) + 1e-9) * R, kappa=1e5)
    return True


def _ivector_case(case, c, s, o):
    from bob.learn.em import IVectorMachine
    from bob.learn.em import ivector as ivmod

    a, b = np.array(MAPS[case["map"]][0]), np.array(MAPS[case["map"]][1])
    ubm, frames, cfg = _fa_world(case, s, o)
    ub = _tr_ubm(ubm, a, b)
    C, D = ubm.means.shape
    t = 1 + cfg % 2

    def mk(u, ar):
        # the floor travels with the units; for odd configurations it is exactly 0 (the only unit-free setting)
        m = IVectorMachine(u, dim_t=t, update_sigma=bool(cfg // 2), variance_floor=(0.0 if cfg % 2 else 1e-12 * float((ar * ar).min()) * s * s))
        m.dim_c, m.dim_d = C, D
        m.T = (c11._pattern((C, D, t), cfg, s) + 0.25 * s) * ar[None, :, None]
        m.sigma = (np.abs(c11._pattern((C, D), cfg + 1, 1.0)) + 0.25) * s * s * (ar * ar)[None, :]
        return m

    A, B = mk(ubm, np.ones(D)), mk(ub, a)
    sa = [ubm.acc_stats(f) for f in frames]
    sb = [ub.acc_stats(f * a + b) for f in frames]
    tags = dict(fam="ivector")
    for x1, x2 in zip(sa, sb):
        c.close(np.asarray(B.project(x2), float), np.asarray(A.project(x1), float), "ivector_invariant", "i-vector on transformed features vs original", tags, rtol=1e-7, scale=_shift_ratio(a, b, s), kappa=4096)
        c.transitions += 2
    # history: the *same* extractor object is converted to the new units in place after it has been used
    C2 = copy.deepcopy(A)
    C2.project(sa[0])
    C2.T *= a[None, :, None]
    C2.sigma *= (a * a)[None, :]
    C2.ubm = ub
    for x1, x2 in zip(sa[:2], sb[:2]):
        c.close(np.asarray(C2.project(x2), float), np.asarray(A.project(x1), float), "ivector_invariant", "i-vector after the same extractor was converted to the new units in place", tags,
                rtol=1e-7, scale=_shift_ratio(a, b, s), kappa=4096)
        c.transitions += 1
    condiv = EPS * float((np.abs(np.vstack(frames) * a + b).max(axis=0) ** 2 / (np.asarray(B.sigma, float).min(axis=0))).max())
    if condiv > 1e-9:
        c.count("ill_conditioned_raw_moments")
    elif hasattr(ivmod, "e_step") and hasattr(ivmod, "m_step"):
        for it in range(2):
            ivmod.m_step(A, ivmod.e_step(A, sa))
            ivmod.m_step(B, ivmod.e_step(B, sb))
            c.transitions += 2
            Ta, Tb = np.asarray(A.T, float), np.asarray(B.T, float)
            c.close(Tb / a[None, :, None], Ta, "T_equivariant", f"T after {it + 1} EM steps on transformed features (rows mapped back) vs original", tags, rtol=1e-6,
                    scale=float(np.abs(Ta).max()) + 1e-9, kappa=1e7)
            c.close(np.asarray(B.sigma, float) / (a * a)[None, :], np.asarray(A.sigma, float), "sigma_equivariant", f"sigma after {it + 1} EM steps (mapped back)", tags, rtol=1e-6,
                    scale=float(np.abs(np.asarray(A.sigma)).max()), kappa=1e7)
    else:
        c.count("ivector_em_functions_absent")
    return True


def run_case(case):
    sync_dask()
    c = Ctx()
    s, o = affine(case["seed"])
    fam = case["fam"]
    if fam in ("gmm_ml", "gmm_map"):
        nt = _gmm_case(case, c, s, o)
        sig = "%s|%s|%d|%r|%s|%s|%d" % (fam, case["data"], case["start"], case["sw"], case.get("floor"), case.get("rel"), case["map"])
    elif fam == "kmeans":
        nt = _kmeans_case(case, c, s, o)
        sig = "km|%s|%d|%s|%d|%d|%s|%s" % (case["data"], case["init"], case["thr"], case["lin"], case["shift"], case.get("kind"), case.get("reuse"))
    elif fam == "linear":
        nt = _linear_case(case, c, s, o)
        sig = "lin|%d|%d" % (case["cfg"], case["map"])
    elif fam == "fa":
        nt = _fa_case(case, c, s, o)
        sig = "fa|%s|%d|%d" % (case["kind"], case["cfg"], case["map"])
    else:
        nt = _ivector_case(case, c, s, o)
        sig = "iv|%d|%d" % (case["cfg"], case["map"])
    ident = fam != "kmeans" and MAPS[case["map"]] == ([1.0, 1.0], [0.0, 0.0])
    c.traces = c.transitions
    return c.result(nontrivial=bool(nt) and not ident, sig=sig)
