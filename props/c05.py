"""C05 - MAP adaptation interpolates between the prior model and the data by relevance.

Case = prior x adaptation set x (relevance factor | fixed alpha) x switch set. Inside: trajectory of 1..3 iterations,
each step compared with the blend of property C05 computed from reference statistics of the previous model; limits
(huge / vanishing relevance), no-evidence components, and the penalised objective for means-only adaptation.
Known finding K1 (variance blend uses the prior mean instead of its square) is classified by evaluating the defective
formula in the oracle: only an exact match with it is attributed to K1.
"""
import numpy as np

from mc import oracle_gmm as og
from mc.util import Ctx, affine, sync_dask

PROPERTY = "C05"
RULE = (
    "complete product: priors (C<=3, D<=2, means not in {0,1} so that mean and mean^2 differ) x adaptation sets (incl. a "
    "component with exactly zero responsibility, a single sample, duplicates) x relevance in {2^-30, 1/2, 4, 16, 2^40} or "
    "fixed alpha in {0, 1/4, 1/2, 1} x all 8 switch sets x numpy (+ dask on a sub-alphabet); per case iterations 1..3, "
    "every step compared with the C05 blend of reference statistics. Non-trivial: the adapted model differs from the prior "
    "by > 1e-6 in some parameter; distinct = distinct case"
)
ASSUMPTIONS = [
    "statistics of the current model come from the float64 reference (certified against Decimal in C02)",
    "variances are compared where neither the count floor nor the variance floor is active (the floor itself is checked in C13/C17)",
]
BUDGET = {"quick": 900, "thorough": 3 * 3600}
EPS = float(np.finfo(float).eps)

PRIORS = [
    dict(mu=[[2.5], [10.0]], var=[[1.0], [4.0]], w=[0.5, 0.5]),
    dict(mu=[[-3.0], [2.5]], var=[[0.25], [1.0]], w=[0.25, 0.75]),
    dict(mu=[[2.5, -3.0], [10.0, 2.5]], var=[[1.0, 4.0], [4.0, 0.25]], w=[0.375, 0.625]),
    dict(mu=[[-3.0, 2.5], [2.5, 2.5], [1000.0, 500.0]], var=[[1.0, 1.0], [4.0, 1.0], [1.0, 1.0]], w=[0.25, 0.5, 0.25]),
    dict(mu=[[2.5], [3.0], [-2000.0]], var=[[1.0], [0.25], [1.0]], w=[0.5, 0.25, 0.25]),
    # features expressed in tiny units: variances far below machine epsilon, with correspondingly lower explicit floors
    dict(mu=[[2.5], [10.0]], var=[[1.0], [4.0]], w=[0.5, 0.5], unit=2.0**-32),
]
DATA = {
    1: {"near": [[2.0], [3.0], [3.5], [9.0], [11.5]], "one": [[4.0]], "dups": [[2.5], [2.5], [2.5]], "spread": [[-3.0], [0.0], [2.5], [6.0], [10.0], [12.0]]},
    2: {"near": [[2.0, -2.0], [3.0, -3.5], [9.0, 2.0], [11.0, 3.0], [2.5, 2.5]], "one": [[0.0, 1.0]], "spread": [[-3.0, 2.0], [0.0, 3.0], [2.5, 2.5], [3.0, 0.5], [10.0, 2.5]]},
}
RELS = [("r", 2.0**-30), ("r", 0.5), ("r", 4.0), ("r", 16.0), ("r", 2.0**40), ("a", 0.0), ("a", 0.25), ("a", 0.5), ("a", 1.0), ("aa", [0.25, 0.875, 0.5])]
SWITCHES = [(a, b, c_) for a in (1, 0) for b in (1, 0) for c_ in (1, 0)]


def cases(tier, seed):
    out = []
    k = 0
    for pi, pr in enumerate(PRIORS):
        D = len(pr["mu"][0])
        for dname in DATA[D]:
            for rel in RELS:
                for sw in SWITCHES:
                    k += 1
                    kinds = ["np"]
                    if (k % 7 == 0) or tier == "thorough" and k % 3 == 0:
                        kinds.append("dask")
                    for kind in kinds:
                        out.append(dict(prior=pi, data=dname, rel=list(rel), sw=list(sw), kind=kind, start="prior", seed=seed, tier=tier))
                    if k % 5 == 0 or tier == "thorough":
                        out.append(dict(prior=pi, data=dname, rel=list(rel), sw=list(sw), kind="np", start="prior", route="set_params", seed=seed, tier=tier))
                    if k % 3 == 0 or tier == "thorough":
                        # non-initial starting state: the machine's parameters were moved away from the prior before fit
                        out.append(dict(prior=pi, data=dname, rel=list(rel), sw=list(sw), kind="np", start="moved", seed=seed, tier=tier))
    return out


def _prior(pr, s, o):
    from bob.learn.em import GMMMachine

    unit = pr.get("unit", 1.0)
    u = GMMMachine(len(pr["w"]), weights=np.array(pr["w"], float))
    u.means = (np.array(pr["mu"], float) * s + o) * unit
    if unit != 1.0:
        u.variance_thresholds = unit * unit * 2.0**-60
    u.variances = np.array(pr["var"], float) * s * s * unit * unit
    return u


def _params(m):
    return np.array(m.weights, float), np.array(m.means, float), np.array(m.variances, float)


def run_case(case):
    from bob.learn.em import GMMMachine

    sync_dask()
    c = Ctx()
    s, o = affine(case["seed"])
    pr = PRIORS[case["prior"]]
    D = len(pr["mu"][0])
    X = (np.array(DATA[D][case["data"]], float) * s + o) * pr.get("unit", 1.0)
    sw = tuple(case["sw"])
    kindr, val = case["rel"]
    relevance = val * 1.0 if kindr == "r" else None
    alpha = val if kindr == "a" else (np.array(val[: len(pr["w"])], float) if kindr == "aa" else 0.5)  # "aa": one fixed ratio per component
    tags0 = dict(sw="".join(map(str, sw)), rel=kindr)
    scale = (float(max(np.abs(X).max() / pr.get("unit", 1.0), np.abs(np.array(pr["mu"]) * s + o).max())) + 1.0) * pr.get("unit", 1.0)
    ubm = _prior(pr, s, o)
    prior = _params(ubm)
    snapshot = [a.copy() for a in prior]
    # the relevance factor / ratio as the caller may hold it: Python number, NumPy integer, float32, float64 scalar, 0-d array
    rel_given, alpha_given = relevance, alpha
    pres = (sum(sw) + len(pr["w"]) + len(X)) % 4
    if relevance is not None and pres:
        if pres == 1 and float(relevance) == int(relevance) and abs(relevance) < 2**31:
            rel_given = np.int64(int(relevance))
        elif pres == 2 and float(np.float32(relevance)) == float(relevance):
            rel_given = np.float32(relevance)
        elif pres == 3:
            rel_given = np.asarray(float(relevance))
    if alpha is not None and np.ndim(alpha) == 0 and pres in (2, 3):
        alpha_given = np.float64(alpha) if pres == 2 else np.asarray(float(alpha))

    def fit(k):
        relevance, alpha = rel_given, alpha_given
        if case.get("route") == "set_params":
            # same configuration reached through the estimator's public parameter interface after construction
            m = GMMMachine(len(pr["w"]), ubm=ubm)
            m.set_params(trainer="map", update_means=bool(sw[0]), update_variances=bool(sw[1]), update_weights=bool(sw[2]),
                         max_fitting_steps=k, convergence_threshold=None, map_relevance_factor=relevance, map_alpha=alpha)
        else:
            m = GMMMachine(len(pr["w"]), trainer="map", ubm=ubm, update_means=bool(sw[0]), update_variances=bool(sw[1]), update_weights=bool(sw[2]),
                           max_fitting_steps=k, convergence_threshold=None, map_relevance_factor=relevance, map_alpha=alpha)
        if case.get("start") == "moved":
            m.means = start[1].copy()
            m.variances = start[2].copy()
        if case["kind"] == "np":
            m.fit(X.copy())
        else:
            import dask.array as da

            rows = tuple([1] * len(X)) if case["prior"] % 2 else ((1, len(X) - 1) if len(X) > 1 else (1,))
            m.fit(da.from_array(X.copy(), chunks=(rows, (D,))))
        c.transitions += 1
        return m

    start = prior
    if case.get("start") == "moved":
        start = (prior[0].copy(), prior[1] + 1.5 * s * (1 + np.arange(prior[1].shape[0]))[:, None], prior[2] * 2.0)
    traj = [start]
    changed = False
    K = 3 if case["tier"] == "quick" else 4
    for k in range(1, K + 1):
        m = fit(k)
        P = _params(m)
        cur = traj[-1]
        st = og.stats(X, *cur)
        vfl = EPS if "unit" not in pr else pr["unit"] ** 2 * 2.0**-60
        w2, mu2, var2 = og.map_mstep(st, prior, cur, sw, relevance, alpha, EPS, vfl)
        c.close(P[0], w2, "map_weights", f"weights after iteration {k}", tags0)
        c.close(float(P[0].sum()), 1.0, "map_weights", "adapted weights sum to one", tags0, rtol=1e-12)
        un = pr.get("unit", 1.0)  # comparisons are made in units of order one so that the tolerance floor max(1,|want|) is not vacuous
        c.close(P[1] / un, mu2 / un, "map_means", f"means after iteration {k}", tags0, scale=scale / un)
        tiny = st["n"] < 1e-9  # near the count floor the two branches of the variance rule meet: not compared
        ok_rows = ~tiny | (st["n"] == 0)
        raw_ok = var2 > 64 * EPS * scale * scale * (1 + len(X))
        mask = ok_rows[:, None] & raw_ok
        if sw[1]:
            good = np.allclose(P[2][mask], var2[mask], rtol=1e-9, atol=64 * EPS * scale * scale)
            if not good:
                wd, mud, vard = og.map_mstep(st, prior, cur, sw, relevance, alpha, EPS, vfl, unsquared_prior_mean=True)
                is_k1 = np.allclose(P[2], vard, rtol=1e-9, atol=64 * EPS * scale * scale)
                c.check(False, "map_variances",
                        f"variances after iteration {k}: got {P[2].tolist()} want {var2.tolist()}" + (" (equals the formula with the prior mean unsquared)" if is_k1 else ""),
                        dict(matches_formula="prior_mean_unsquared") if is_k1 else tags0)
            else:
                c.check(True, "map_variances", "")
        else:
            c.close(P[2] / (un * un), cur[2] / (un * un), "map_variances", "variances must stay when not updated", tags0, rtol=1e-15)
        # no-evidence component keeps the prior's mean
        for cc in np.where(st["n"] == 0)[0] if sw[0] else []:
            c.count("zero_evidence_components")
            c.close(P[1][cc] / un, prior[1][cc] / un, "no_evidence", f"component {cc} without evidence must keep the prior mean", tags0, rtol=1e-15)
        # the machine's own likelihood must be the likelihood of its visible parameters (no stale cache after the M-step)
        if np.all(P[2] > 0) and np.all(P[0] > 0):
            c.close(np.asarray(m.log_likelihood(X), float), og.ll(X, *P), "loglik_consistency", f"log_likelihood after iteration {k} vs definition on the visible parameters", tags0)
        if max(float(np.abs(P[i] - prior[i]).max()) for i in range(3)) > 1e-6:
            changed = True
        traj.append(P)
        c.states += 1
        if c.viol:
            break
    # limits (first iteration)
    if not c.viol and kindr == "r" and case.get("start") != "moved":
        P1 = traj[1]
        st = og.stats(X, *prior)
        if relevance >= 2.0**40:
            bound = float(st["n"].max()) / relevance
            c.check(float(np.abs(P1[1] - prior[1]).max()) <= bound * 4 * scale + 1e-12, "limit_prior", "huge relevance factor must return the prior means", tags0)
            c.check(float(np.abs(P1[0] - prior[0]).max()) <= bound * 4 + 1e-12, "limit_prior", "huge relevance factor must return the prior weights", tags0)
        if relevance <= 2.0**-30 and sw[0]:
            ev = st["n"] > 1e-6
            ml = st["px"][ev] / st["n"][ev][:, None]
            # |adapted - ML| = r/(n+r) |prior - ML| <= (r/n) |prior - ML|
            bound = (relevance / st["n"][ev])[:, None] * np.abs(prior[1][ev] - ml) * (1 + 1e-6) + 1e-12 * scale
            c.check(bool(np.all(np.abs(P1[1][ev] - ml) <= bound)), "limit_ml",
                    lambda: f"vanishing relevance factor must return the ML means within r/n: got {P1[1][ev].tolist()} ML {ml.tolist()}", tags0)
    # penalised objective for means-only Reynolds adaptation
    if not c.viol and kindr == "r" and sw == (1, 0, 0) and 0.25 <= relevance <= 64:
        def obj(P):
            # variances are fixed in means-only adaptation: the implied prior on a mean is N(prior mean, variance / r)
            pen = 0.5 * relevance * float((((P[1] - prior[1]) ** 2) / traj[0][2]).sum())
            return float(og.ll(X, *P).sum()) - pen

        J = [obj(P) for P in traj]
        for k in range(1, len(J)):
            c.check(J[k] >= J[k - 1] - 1e-10 * max(1.0, abs(J[k - 1])), "penalised_objective",
                    f"relevance-penalised log-likelihood fell from {J[k-1]!r} to {J[k]!r} at iteration {k}", tags0)
        c.count("objective_trajectories")
    # the prior itself is untouched
    after = _params(ubm)
    c.check(all(np.array_equal(a, b) for a, b in zip(after, snapshot)), "prior_intact", "MAP training modified its prior", tags0)
    c.traces = c.transitions
    sig = "%d|%s|%r|%s|%s|%s|%s" % (case["prior"], case["data"], case["rel"], tags0["sw"], case["kind"], case.get("start"), case.get("route"))
    return c.result(nontrivial=changed, sig=sig)
