"""C12 - training from statistics is independent of bag partitioning and scheduling.

Case = trainer (ISV, JFA, i-vector) x labelled statistics x partitioning of the bag (every composition of N, with
empty partitions inserted, from_delayed and from_sequence) x labeling (all surjections onto K classes) x executor.
Inside a case the controlled scheduler enumerates task orders (deviation bounded). Oracle: in-memory list training
with the same seed; "exactly once": what reaches every i-vector M-step must carry the total count of all statistics.
"""
import copy
import itertools

import numpy as np

from mc import sched
from mc.util import Ctx, affine, compositions

PROPERTY = "C12"
RULE = (
    "complete product: trainer {ISV, JFA, i-vector} x partitioning (all compositions of N statistics, plus empty "
    "partitions at the front/middle/end, built with from_delayed; from_sequence with npartitions 1..N) x labeling (all "
    "surjections of N items onto K in {2,3} classes, unsorted ones included) x executor {shared, serialised}; task orders "
    "with <= d deviations explored for the sorted and two unsorted labelings, canonical order for the rest; i-vector also "
    "for 1..P singleton partitions (both parities at every level of the pairwise tree). Oracle: list training. "
    "Non-trivial: >= 2 partitions or >= 2 schedules; distinct = distinct (trainer, partitioning, labeling, executor)"
)
ASSUMPTIONS = [
    "tasks execute atomically; placements all-shared or all-serialised",
    "labels are 0..K-1 as the library requires (it uses them as indices)",
    "statistics come from one fixed UBM (2 components, 2 features) over fixed dyadic frames",
]
BUDGET = {"quick": 900, "thorough": 4 * 3600}

_RECORD = []


def _ubm(s, o):
    from bob.learn.em import GMMMachine

    u = GMMMachine(2)
    u.means = np.array([[0.0, 0.5], [4.0, 4.5]]) * s + o
    u.variances = np.array([[1.0, 2.0], [0.5, 1.0]]) * s * s
    u.weights = np.array([0.375, 0.625])
    return u


def _stats(n, s, o):
    rng = np.random.RandomState(20240917)
    ubm = _ubm(s, o)
    out = []
    for i in range(n):
        k = 3 + (i % 3)
        centre = np.array([4.0, 4.5]) * (i % 2)
        fr = np.round((rng.normal(size=(k, 2)) * 1.5 + centre) * 4) / 4
        out.append(ubm.acc_stats(fr * s + o))
    return ubm, out


def _partitionings(n, tier):
    parts = []
    for comp in compositions(n):
        parts.append(("delayed", list(comp)))
    for comp in ([(n,), (1, n - 1), (n // 2, n - n // 2)] if tier == "quick" else compositions(n)[:8]):
        comp = list(comp)
        parts.append(("delayed", [0] + comp))
        parts.append(("delayed", comp + [0]))
        if len(comp) > 1:
            parts.append(("delayed", comp[:1] + [0] + comp[1:]))
    for k in range(1, n + 1):
        parts.append(("sequence", k))
    return parts


def _surjections(n, k):
    return [list(t) for t in itertools.product(range(k), repeat=n) if len(set(t)) == k]


def cases(tier, seed):
    out = []
    ns = [4] if tier == "quick" else [4, 5]
    for n in ns:
        labs2 = _surjections(n, 2)
        labs3 = _surjections(n, 3)
        if tier == "quick":
            labs3 = labs3[::3]
        sorted2 = sorted(labs2, key=lambda l: (l != sorted(l), l))
        explore_set = [sorted(labs2[len(labs2) // 2]), [1, 0] + [0, 1] * ((n - 2) // 2) + [1] * ((n - 2) % 2), labs3[len(labs3) // 2]]
        for trainer in ("isv", "jfa"):
            for kind, part in _partitionings(n, tier):
                for mode in ("shared", "serialised"):
                    for lab in sorted2 + labs3:
                        out.append(dict(trainer=trainer, n=n, part=[kind, part], labels=lab, mode=mode, devs=0, iters=1, seed=seed))
                    for lab in explore_set:
                        out.append(dict(trainer=trainer, n=n, part=[kind, part], labels=lab, mode=mode,
                                        devs=1 if tier == "quick" else 2, iters=2, seed=seed))
        # histories: the machine has been used before it is trained from the bag (a stale cache would only show now)
        for trainer in ("isv", "jfa"):
            for pre in ("fit_list", "enroll", "enroll_fit_list"):
                for kind, part in [("delayed", [n]), ("delayed", [1, n - 1]), ("sequence", n)]:
                    for mode in ("shared", "serialised"):
                        for lab in explore_set[:2]:
                            out.append(dict(trainer=trainer, n=n, part=[kind, part], labels=lab, mode=mode, devs=0 if tier == "quick" else 1,
                                            iters=2, pre=pre, seed=seed))
        for kind, part in _partitionings(n, tier):
            for mode in ("shared", "serialised"):
                for upd in (True, False):
                    out.append(dict(trainer="ivector", n=n, part=[kind, part], labels=None, mode=mode,
                                    devs=1 if tier == "quick" else 2, iters=2, upd=upd, seed=seed))
                if mode == "shared":  # (a generator cannot cross a serialising executor)
                    out.append(dict(trainer="ivector", n=n, part=[kind, part], labels=None, mode=mode, devs=1 if tier == "quick" else 2, iters=3, upd=True, lazy=True, seed=seed))
                out.append(dict(trainer="ivector", n=n, part=[kind, part], labels=None, mode=mode, devs=0, iters=3, upd=True, thr=True, seed=seed))
                out.append(dict(trainer="ivector", n=n, part=[kind, part], labels=None, mode=mode, devs=0, iters=2, upd=False, tiny=True, seed=seed))
    # pairwise-tree reduction: P singleton partitions, both parities at every level
    for p in range(1, (12 if tier == "quick" else 24) + 1):
        for mode in ("shared", "serialised"):
            out.append(dict(trainer="ivector", n=p, part=["delayed", [1] * p], labels=None, mode=mode,
                            devs=1 if p <= (8 if tier == "quick" else 12) else 0, iters=2, upd=True, seed=seed))
    return out


def _one_shot(part):
    return (st for st in part)


def _recording_m_step(machine, stats):
    from bob.learn.em import ivector as iv

    _RECORD.append(np.array(stats.nij, dtype=float).copy())
    return _ORIG_M_STEP(machine, stats)


_ORIG_M_STEP = None


def _fit(case, ubm, stats, bag):
    """bag=False: in-memory list; True: dask bag built as the case says."""
    import dask
    import dask.bag as db

    from bob.learn.em import ISVMachine, IVectorMachine, JFAMachine

    stats = copy.deepcopy(stats)
    if bag:
        kind, part = case["part"]
        if kind == "sequence":
            X = db.from_sequence(stats, npartitions=part)
        else:
            chunks, i = [], 0
            for k in part:
                chunks.append(stats[i : i + k])
                i += k
            X = db.from_delayed([dask.delayed(list)(ch) for ch in chunks])
    else:
        X = stats
    tr = case["trainer"]
    if bag and case.get("lazy"):
        X = X.map_partitions(_one_shot)  # every partition is a one-shot iterator (statistics produced on the fly)
    if tr == "ivector":
        np.random.seed(7)
        m = IVectorMachine(ubm, dim_t=2, max_iterations=case["iters"], update_sigma=case["upd"], variance_floor=1e-5,
                           convergence_threshold=(1e-3 if case.get("thr") else None))
        m.fit(X)
        return dict(T=np.array(m.T), sigma=np.array(m.sigma))
    y = np.array(case["labels"])
    if tr == "isv":
        m = ISVMachine(r_U=2, em_iterations=case["iters"], ubm=ubm, random_state=0, relevance_factor=4.0)
    else:
        m = JFAMachine(r_U=2, r_V=1, em_iterations=case["iters"], ubm=ubm, random_state=0, relevance_factor=4.0)
    pre = case.get("pre") or ""
    if "enroll" in pre:
        m.enroll(copy.deepcopy(stats[:2]))
    if "fit_list" in pre:
        with dask.config.set(scheduler="sync"):
            m.fit(copy.deepcopy(stats), y)
    m.fit(X, y)
    if tr == "isv":
        return dict(U=np.array(m.U), D=np.array(m.D))
    return dict(U=np.array(m.U), V=np.array(m.V), D=np.array(m.D))


def run_case(case):
    global _ORIG_M_STEP
    import dask

    from bob.learn.em import ivector as iv

    c = Ctx()
    s, o = affine(case["seed"])
    ubm, stats = _stats(case["n"], s, o)
    if case.get("tiny"):
        for st in stats:  # first component: tiny but non-zero total occupancy
            st.n[0], st.sum_px[0], st.sum_pxx[0] = st.n[0] * 2.0**-27, st.sum_px[0] * 2.0**-27, st.sum_pxx[0] * 2.0**-27
    tags = dict(trainer=case["trainer"], mode=case["mode"])
    with dask.config.set(scheduler="sync"):
        ref = _fit(case, ubm, stats, bag=False)
    total_n = sum(st.n for st in stats)
    hooked = False
    if case["trainer"] == "ivector" and hasattr(iv, "m_step"):
        if _ORIG_M_STEP is None:
            _ORIG_M_STEP = iv.m_step
        iv.m_step = _recording_m_step
        hooked = True
    try:
        nsched = 0
        outcomes = set()
        for prefix, out, ctl in sched.explore(lambda: _fit(case, ubm, stats, bag=True), mode=case["mode"], bound=case["devs"],
                                              max_execs=3000):
            nsched += 1
            c.transitions += ctl.tasks_run
            outcomes.add(b"".join(np.ascontiguousarray(out[k]).tobytes() for k in sorted(out)))
            for k in sorted(ref):
                c.close(out[k], ref[k], "params", f"{case['trainer']} {k} part={case['part']} labels={case['labels']} mode={case['mode']} schedule={prefix}",
                        tags, rtol=1e-8, scale=float(np.abs(ref[k]).max()))
            if case["trainer"] == "ivector":
                # each component's block of T is solved on its own: compare it on its own scale, so that a rarely
                # visited component is not hidden behind the well populated ones
                for ci in range(ref["T"].shape[0]):
                    sc = float(np.abs(ref["T"][ci]).max())
                    ok = bool(np.all(np.abs(out["T"][ci] - ref["T"][ci]) <= 1e-7 * sc + 1e-300))
                    c.check(ok, "params", f"ivector T[{ci}] on its own scale part={case['part']} mode={case['mode']} schedule={prefix}: "
                            f"max diff {float(np.abs(out['T'][ci] - ref['T'][ci]).max()):.3e} scale {sc:.3e}", tags)
            if hooked:
                c.check(len(_RECORD) == case["iters"], "exactly_once", f"{len(_RECORD)} M-steps recorded for {case['iters']} iterations", tags)
                for r in _RECORD:
                    c.close(r, total_n, "exactly_once", f"counts reaching the M-step part={case['part']} schedule={prefix}", tags)
                del _RECORD[:]
            if c.viol:
                break
    finally:
        if hooked:
            iv.m_step = _ORIG_M_STEP
        del _RECORD[:]
    if sched.explore.capped:
        c.count("schedule_cap_hit")
    c.states = nsched
    c.traces = nsched
    c.count("schedules", nsched)
    c.count("distinct_outcomes_gt1", 1 if len(outcomes) > 1 else 0)
    npart = case["part"][1] if case["part"][0] == "sequence" else len(case["part"][1])
    sig = "%s|%s|%s|%s|%s|%s|%s|%s|%s" % (case["trainer"], case["n"], case["part"], case["labels"], case["mode"], case.get("upd"), case.get("pre"), (case.get("thr"), case.get("lazy")), case.get("tiny"))
    return c.result(nontrivial=(npart >= 2 or nsched >= 2), sig=sig)
