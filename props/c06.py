"""C06 - k-means training descends the true distortion and stops by its stated rule.

Enumerated: data sets x K x initial centroid sets (every K-subset of the distinct points + off-data sets, seeded
"random", a few "k-means||") x input kind (NumPy / several row chunkings of a Dask array); inside a case every
iteration cap x threshold of the tier's alphabet. Oracle: exact Lloyd iteration in Fractions (mc/oracle_kmeans).
"""
import itertools
from fractions import Fraction as F

import numpy as np

from mc import oracle_kmeans as ok
from mc.util import Ctx, affine, compositions, sync_dask

PROPERTY = "C06"
RULE = (
    "complete Cartesian product: data set x K in {1,2,3} x initial centroids (all K-subsets of the distinct points, "
    "off-data sets, seeded random, k-means||) x input kind (numpy, dask row chunkings); per case all caps x thresholds; "
    "oracle = exact rational Lloyd iteration; a case is non-trivial when the exact trajectory changes the assignment "
    "at least once after the first iteration or the stopping rule fires before the cap; distinct = distinct "
    "(data, K, init, kind) whose exact trajectory is tie-free"
)
ASSUMPTIONS = [
    "values limited to the listed alphabets (affine re-labelling chosen by VERIF_SEED)",
    "exact ties in the assignment and thresholds within 1e-9 of the relative change are excluded and counted",
    "initial centroids of 'random'/'k-means||' are taken from a max_iter=0 fit with the same seed (C16 checks that this is a function of the seed)",
    "dask graphs executed by dask's synchronous scheduler here; schedules are explored in C04",
]
BUDGET = {"quick": 900, "thorough": 7200}

BASE = {
    "a1": [[0], [1], [2], [10], [11], [12]],
    "b1": [[0], [1], [3], [7], [8], [20], [21]],
    "c1": [[0], [0.5], [4], [4.5], [9]],
    "d1": [[0], [0], [1], [5], [5], [6]],
    "e2": [[0, 0], [1, 0.5], [0.5, 1], [10, 10], [11, 10.5], [10.5, 11]],
    "f2": [[0, 0], [0, 4], [3, 0], [3, 4], [8, 2], [9, 3], [20, 0]],
    "g2": [[-3, 1], [-0.5, 2.5], [0, 0], [1, -3], [2.5, 10], [10, 1]],
    "h2": [[0.1, 1 / 3], [0.7, 0.2], [1000.1, 5], [1000.3, 5.5], [3.3, 2.2]],
    "j2": [[1e8, 3.0], [1e8 + 1, 3.5], [1e8 + 2, 2.5], [1e8 + 7, 3.0], [1e8 + 8, 4.0], [1e8 + 9.5, 3.5]],
    "k1": [[2.0**20], [2.0**20 + 0.25], [2.0**20 + 0.5], [2.0**20 + 3], [2.0**20 + 3.5]],
    "m2": [[0, 0], [0.125, 0.5], [0.5, 0.125], [0.375, 0.375], [0.75, 0.5], [0.625, 0.75], [0.25, 0.125]],
    "n2": [[v * 2.0**-12 for v in r] for r in [[0, 0], [0.125, 0.5], [0.5, 0.125], [0.375, 0.375], [0.75, 0.5], [0.625, 0.75], [0.25, 0.125], [3, 3], [3.25, 2.5]]],
    # two consecutive iterations with equal cluster sizes but different assignments (one sample moves each way)
    "s2a": [[5, 8], [6, 9], [10, 6], [11, 6], [0, 7], [2, 11], [10, 3]],
    "s2b": [[0, 3], [1, 8], [11, 3], [0, 10], [2, 11], [11, 8], [7, 9], [10, 5]],
    "s2c": [[7, 11], [11, 10], [5, 0], [9, 10], [7, 0], [6, 6], [5, 1]],
    "i3": [[0, 0, 1], [1, 0, 1], [0, 2, 1], [8, 8, 1], [9, 8, 1], [8, 10, 1.5], [30, 0, 1]],
}
QUICK_SETS = ["a1", "b1", "d1", "e2", "f2", "h2", "j2", "k1", "m2", "n2"]
CAPS = {"quick": [1, 2, 3, 5], "thorough": [1, 2, 3, 4, 5, 8]}
THRS = [None, 0.0, 1e-3, 0.1, 1.0, 1e9]


def _data(name, seed):
    s, o = affine(seed)
    return [[s * v + o for v in r] for r in BASE[name]]


def cases(tier, seed):
    out = []
    names = QUICK_SETS if tier == "quick" else list(BASE)
    for name in names:
        X = _data(name, seed)
        n = len(X)
        distinct = sorted({tuple(r) for r in X})
        comps = compositions(n)
        if tier == "quick":
            kinds = ["np", (n,), (1, n - 1), (n // 2, n - n // 2), tuple([1] * n)]
            if all(float(v).is_integer() for r in X for v in r):
                kinds.append("np_int")  # the same values held in integer arrays (data and explicit initial centroids)
        else:
            kinds = ["np"] + [c for c in comps if len(c) <= 3] + [tuple([1] * n)]
            if all(float(v).is_integer() for r in X for v in r):
                kinds.append("np_int")
        lo = [min(r[d] for r in X) for d in range(len(X[0]))]
        hi = [max(r[d] for r in X) for d in range(len(X[0]))]
        mid = [(a + b) / 2 for a, b in zip(lo, hi)]
        for K in (1, 2, 3):
            inits = [list(map(list, c)) for c in itertools.combinations(distinct, K)]
            if tier == "quick" and len(inits) > 12:
                # keep the product small in the quick tier: every 3rd subset (still deterministic and complete over that sub-alphabet)
                inits = inits[::3]
            off = [[[lo[d] - 1 - k for d in range(len(lo))] for k in range(K)]]
            off.append([[mid[d] + 0.25 * k for d in range(len(lo))] for k in range(K)])
            off.append([[hi[d] + 1 + 2 * k if k else lo[d] - 0.5 for d in range(len(lo))] for k in range(K)])
            for init in inits + off:
                for kind in kinds:
                    out.append(dict(data=name, seed=seed, K=K, init=init, kind=kind, tier=tier))
            for rs in ((0, 3) if tier == "quick" else (0, 1, 2, 3, 7)):
                for kind in kinds[:2] if tier == "quick" else kinds[:4]:
                    out.append(dict(data=name, seed=seed, K=K, init="random", rs=rs, kind=kind, tier=tier))
        if name in ("a1", "e2"):
            for sname in ("s2a", "s2b", "s2c"):
                Xs = _data(sname, seed)
                for kind in ["np", (3, len(Xs) - 3)]:
                    out.append(dict(data=sname, seed=seed, K=2, init=[Xs[0], Xs[1]], kind=kind, tier=tier))
        # k-means|| is slow (0.2-0.5 s per initialisation): a handful per data set
        for K in (2,) if tier == "quick" else (2, 3):
            for kind in ["np"] if tier == "quick" else ["np", (n // 2, n - n // 2)]:
                if tier == "quick" and name not in ("a1", "e2"):
                    continue
                out.append(dict(data=name, seed=seed, K=K, init="k-means||", rs=0, kind=kind, tier=tier))
    return out


def _mk(X, kind):
    A = np.array(X, dtype=float)
    if kind == "np":
        return A
    if kind == "np_int":
        return A.astype(np.int64)
    import dask.array as da

    return da.from_array(A, chunks=(tuple(kind), (A.shape[1],)))


_ITER = [0]


def _counting_m_step(*a, **k):
    _ITER[0] += 1
    return _ORIG_M_STEP[0](*a, **k)


_ORIG_M_STEP = [None]


def _fit(case, X, init, cap, thr):
    from bob.learn.em import KMeansMachine
    from bob.learn.em import kmeans as _km

    if hasattr(_km, "m_step") and _km.m_step is not _counting_m_step:
        _ORIG_M_STEP[0] = _km.m_step
        _km.m_step = _counting_m_step  # fit() looks m_step up as a module global: one call per iteration
    _ITER[0] = 0
    if (case["K"] + len(case["data"]) + len(case["kind"])) % 2:
        # settings as they come out of np.arange / a parameter grid / an HDF5 attribute: NumPy scalars, not Python numbers
        cap = None if cap is None else np.int64(cap)
        thr = None if thr is None else np.float64(thr)

    if isinstance(init, str):
        m = KMeansMachine(case["K"], init_method=init, random_state=case["rs"], max_iter=cap, convergence_threshold=thr)
    else:
        ini = np.array(init, dtype=float)
        if case["kind"] == "np_int" and np.all(ini == np.round(ini)):
            ini = ini.astype(np.int64)
        m = KMeansMachine(case["K"], init_method=ini, max_iter=cap, convergence_threshold=thr)
    m.fit(_mk(X, case["kind"]))
    return m


def run_case(case):
    sync_dask()
    c = Ctx()
    X = _data(case["data"], case["seed"])
    Xf = ok.to_frac(X)
    A = np.array(X, dtype=float)
    tier = case.get("tier", "quick")
    caps = CAPS[tier]
    is_dask = case["kind"] not in ("np", "np_int")
    if is_dask and tier == "quick":
        caps, thrs = [1, 2, 5], [None, 1e-3, 0.1]
    else:
        thrs = THRS
    init = case["init"]
    if isinstance(init, str):
        m0 = _fit(case, X, init, 0, None)
        c.transitions += 1
        C0 = np.array(m0.centroids_, dtype=float)
        c.check(C0.shape == (case["K"], A.shape[1]) and np.all(np.isfinite(C0)), "init_shape", "initial centroids %r" % (C0,))
        if c.viol:
            return c.result()
    else:
        C0 = np.array(init, dtype=float)
    # exact trajectory
    kmax = max(caps)
    traj = [ok.to_frac(C0)]
    crit = [None]  # crit[j] = criterion reported at iteration j = distortion w.r.t. traj[j-1]
    bad_from = None  # first iteration whose assignment has a tie or an empty cluster
    changed = False
    prev_labels = None
    for j in range(1, kmax + 1):
        st = ok.lloyd_step(Xf, traj[-1])
        if (st["tie"] or st["empty"]) and bad_from is None:
            bad_from = j
            c.count("tie_or_empty_cluster")
        if prev_labels is not None and st["labels"] != prev_labels:
            changed = True
        prev_labels = st["labels"]
        traj.append(st["new"])
        crit.append(st["crit"])
    # magnitude of the intermediates the definition itself needs: coordinates (for centroids) and
    # coordinate x spread (rounding of a centroid at offset |x| moves a squared distance by ~ eps*|x|*spread)
    big = float(max(abs(v) for r in X for v in r)) + 1.0
    spread = max(max(r[d] for r in X) - min(r[d] for r in X) for d in range(len(X[0]))) + 1.0
    spread = max(spread, max(abs(v - w) for r in C0.tolist() for v, w in zip(r, X[0])) + 1.0)
    scale = big * spread
    tags = dict(kind="dask" if is_dask else ("numpy-int" if case["kind"] == "np_int" else "numpy"), init=init if isinstance(init, str) else "explicit")

    def valid(k):
        return bad_from is None or k < bad_from

    # (1) trajectory: fit with max_iter=k, no threshold
    dist_prev = None
    for k in range(0, kmax + 1):
        if k and not valid(k):
            break
        m = _fit(case, X, C0 if not isinstance(init, str) else init, k, None)
        c.transitions += 1
        c.states += 1
        want_c = np.array(ok.fl(traj[k]))
        c.close(m.centroids_, want_c, "centroids", f"centroids after {k} iterations", tags, scale=big)
        if k >= 1:
            c.close(
                float(m.average_min_distance),
                float(crit[k]),
                "criterion",
                f"average_min_distance reported after {k} iterations (mean sq. distance to the centroids entering the last one)",
                tags,
                scale=scale,
            )
        # independent distortion from the machine's own transform, must be non-increasing and match the exact value
        T = m.transform(A)
        dist = float(np.asarray(T).min(axis=0).mean())
        want_d = ok.distortion(Xf, traj[k])
        c.close(dist, float(want_d), "distortion", f"transform(X).min(0).mean() after {k} iterations", tags, scale=scale)
        if dist_prev is not None:
            c.check(dist <= dist_prev + 1e-10 * max(1.0, dist_prev) + 64 * 2.0**-52 * scale, "descent",
                    f"distortion rose from {dist_prev!r} to {dist!r} at iteration {k}", tags)
        dist_prev = dist
    # (1b) an exact tie in the very first assignment: the model after one iteration must be the result of *some*
    # admissible tie-break (every tied sample counted in exactly one of its nearest clusters)
    if bad_from == 1 and not isinstance(init, str):
        cands = ok.lloyd_step_candidates(Xf, traj[0])
        if cands is not None:
            m = _fit(case, X, C0, 1, None)
            c.transitions += 1
            got = np.asarray(m.centroids_, float)
            hit = any(np.allclose(got, np.array(ok.fl(cd)), rtol=1e-9, atol=64 * 2.0**-52 * big) for cd in cands)
            c.check(hit, "tie_break", lambda: f"centroids after one iteration with an exact assignment tie {got.tolist()} are not the cluster means of any admissible tie-break", tags)
            c.close(float(m.average_min_distance), float(crit[1]), "criterion", "criterion of the first iteration (independent of the tie-break)", tags, scale=scale)
            c.count("tie_first_step_checked")
    # calibration of the iteration counter: it is only trusted if an unthresholded run with cap 3 shows exactly 3 calls
    # (a refactoring that calls m_step differently must not turn into an alarm)
    counter_ok = False
    if _ORIG_M_STEP[0] is not None and not is_dask and not isinstance(init, str):
        _fit(case, X, C0, 3, None)
        counter_ok = _ITER[0] == 3
        if not counter_ok:
            c.count("iteration_counter_uncalibrated")
    # (2) stopping rule
    fired = False
    for cap in caps:
        for thr in thrs:
            if thr is None:
                continue
            # reference rule on exact values
            stop, near = cap, False
            for j in range(2, cap + 1):
                a0, a1 = crit[j - 1], crit[j]
                if a0 == 0:
                    continue  # relative change undefined (0/0): the model no longer moves, any stopping point is the same model
                rel = abs(a0 - a1) / a0
                if rel != F(thr) and abs(float(rel) - thr) <= 1e-9 * max(1.0, thr):
                    near = True  # ambiguous in floating point; an exact equality (e.g. 0 at a fixed point with thr = 0) is a definite stop
                if rel <= F(thr):
                    stop = j
                    break
            if near:
                c.count("threshold_tie_skipped")
                continue
            if not valid(stop):
                c.count("stop_case_skipped_tie_or_empty")
                continue
            if stop < cap:
                fired = True
            m = _fit(case, X, C0 if not isinstance(init, str) else init, cap, thr)
            c.transitions += 1
            c.close(m.centroids_, np.array(ok.fl(traj[stop])), "stop_centroids",
                    f"cap={cap} thr={thr}: model must be the one after {stop} iterations", tags, scale=big)
            c.close(float(m.average_min_distance), float(crit[stop]), "stop_criterion",
                    f"cap={cap} thr={thr}: criterion must be that of iteration {stop}", tags, scale=scale)
            if counter_ok:
                c.check(_ITER[0] == stop, "iteration_count", f"cap={cap} thr={thr}: {_ITER[0]} iterations were run, the stopping rule says {stop}", tags)
            if thr in (0.1, 1e-3) and not c.viol:
                # history: fitting the same machine object again must give the same model (no state carried over)
                m.fit(_mk(X, case["kind"]))
                c.transitions += 1
                c.close(m.centroids_, np.array(ok.fl(traj[stop])), "refit_centroids",
                        f"cap={cap} thr={thr}: second fit of the same object must again stop after {stop} iterations", tags, scale=big)
                c.close(float(m.average_min_distance), float(crit[stop]), "refit_criterion",
                        f"cap={cap} thr={thr}: criterion after a second fit of the same object", tags, scale=scale)
    # no iteration cap: the stopping rule alone ends the training (a run that never stops hits the case horizon)
    if bad_from is None and not is_dask and not isinstance(init, str):
        ext = list(traj)
        ecrit = list(crit)
        for j in range(kmax + 1, 16):
            st = ok.lloyd_step(Xf, ext[-1])
            if st["tie"] or st["empty"]:
                break
            ext.append(st["new"])
            ecrit.append(st["crit"])
        for thr in (0.0, 1e-3):
            stop = None
            for j in range(2, len(ext)):
                a0, a1 = ecrit[j - 1], ecrit[j]
                if a0 == 0:
                    break
                rel = abs(a0 - a1) / a0
                if rel != F(thr) and abs(float(rel) - thr) <= 1e-9 * max(1.0, thr):
                    break
                if rel <= F(thr):
                    stop = j
                    break
            if stop is None:
                continue
            m = _fit(case, X, C0, None, thr)
            c.transitions += 1
            c.close(m.centroids_, np.array(ok.fl(ext[stop])), "no_cap_stop", f"max_iter=None thr={thr}: model must be the one after {stop} iterations", tags, scale=big)
            if counter_ok:
                c.check(_ITER[0] == stop, "iteration_count", f"max_iter=None thr={thr}: {_ITER[0]} iterations were run, the stopping rule says {stop}", tags)
            c.count("no_cap_runs")
    c.traces = c.transitions
    nontrivial = (changed or fired) and bad_from is None
    sig = "%s|%d|%s|%s" % (case["data"], case["K"], init if isinstance(init, str) else repr(init), case["kind"])
    return c.result(nontrivial=nontrivial, sig=sig)
