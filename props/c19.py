"""C19 - training and scoring never modify or alias caller-owned data.

A "world" holds every caller-owned object (arrays, label sequences, statistics, UBM / prior, initial centroids,
trained machines and enrolled factors). Operations are the public entry points, each taking its inputs from the world.
BFS over operation sequences (state key = full world state + NumPy global RNG state). On every transition:
(a) every world object is bit-identical to its initial snapshot, (b) the result equals the result of the same operation
on a fresh world (re-use gives the same results), (c) no array of the result shares memory with a world array.
Separately, per operation: overwrite every world array in place after the call and require the returned model unchanged.
"""
import copy
import pickle

import numpy as np

from mc import bfs
from mc.util import Ctx, affine

PROPERTY = "C19"
RULE = (
    "explicit-state BFS over sequences of public entry points sharing one set of caller-owned inputs: 65 operations (k-means "
    "fit numpy/dask/max_iter=0, transform, predict, cluster variances; GMM ML/MAP fit numpy/dask, acc_stats, transform, "
    "log-likelihood; statistics + and +=; linear_scoring with machines / arrays / offsets; ISV and JFA fit from list / bag / "
    "array / dask array, enroll, enroll_using_array, score (single, list), score_using_array, estimate_x/ux, transform; "
    "i-vector fit list/bag, project, transform; WCCN and whitening fit/transform numpy/dask); case = first operation, the "
    "worker explores all continuations to the tier's depth; plus one overwrite-after-call test per operation. "
    "Non-trivial: every case (each executes >= 1 entry point on shared inputs); distinct = distinct first operation"
)
ASSUMPTIONS = [
    "a machine keeping a reference to the UBM *object* it was given (machine.ubm is ubm) is by design and not counted as aliasing; its own parameter arrays must not share memory with any input",
    "dask graphs run on the synchronous scheduler here (shared memory, the situation in which aliasing is possible)",
]
BUDGET = {"quick": 900, "thorough": 4 * 3600}
DEPTH = {"quick": 2, "thorough": 3}


class World:
    pass


def make_world(s, o):
    import dask

    from bob.learn.em import GMMMachine, ISVMachine, IVectorMachine, JFAMachine

    W = World()
    W.X = np.array([[0.0, 0.0], [1.0, 0.5], [0.5, 1.5], [10.0, 10.0], [11.0, 11.5], [10.5, 9.5], [2.0, 1.0], [9.0, 12.0]]) * s + o
    W.Xord = W.X[[0, 1, 2, 6, 3, 4, 5, 7]].copy()  # rows ordered by cluster: whole blocks belong to one cluster
    W.y = np.array([0, 1, 0, 1, 0, 1, 1, 0])
    W.ylist = [0, 1, 0, 1, 0, 1, 1, 0]
    W.init = np.array([[0.0, 0.0], [1.0, 1.0]]) * s + o
    W.Xk = W.X[[0, 3]].copy()  # exactly as many samples as clusters
    W.yneg = np.array([-1, 0, -1, 0, -1, 0, 0, -1])  # class ids whose smallest value is not 0
    W.relw = np.array([0.5, 0.25])  # relative weights (not summing to one) handed to a machine
    W.relw2 = np.array([3.0, 1.0])
    W.smallvar = np.array([[0.125, 2.0], [0.25, 0.0625]]) * s * s
    W.ubm_kw = dict(max_fitting_steps=7, update_variances=True, update_weights=True, convergence_threshold=None)
    W.lazy_kw = dict(n_gaussians=2, max_fitting_steps=1, convergence_threshold=None)
    u = GMMMachine(2, weights=np.array([0.375, 0.625]))
    u.means = np.array([[0.5, 0.5], [10.5, 10.5]]) * s + o
    u.variances = np.array([[1.0, 2.0], [0.5, 1.0]]) * s * s
    W.ubm = u
    p = GMMMachine(2, weights=np.array([0.25, 0.75]))
    p.means = np.array([[1.0, 0.0], [9.0, 11.0]]) * s + o
    p.variances = np.array([[2.0, 2.0], [1.0, 4.0]]) * s * s
    W.prior = p
    W.frames = [W.X[:3].copy(), W.X[3:6].copy(), W.X[[0, 3, 6]].copy(), W.X[[1, 4, 7]].copy(), W.X[2:5].copy()]
    W.stats = [u.acc_stats(f) for f in W.frames]
    W.slabels = np.array([0, 1, 0, 1, 1])
    W.models = np.array([[[0.0, 1.0], [10.0, 10.0]], [[1.0, 1.0], [11.0, 9.0]]]) * s + o
    W.offsets = np.array([[[0.25, 0.0], [0.0, -0.5]]] * 5) * s
    with dask.config.set(scheduler="sync"):
        W.isv = ISVMachine(r_U=1, em_iterations=1, ubm=u, random_state=0, enroll_iterations=2).fit(copy.deepcopy(W.stats), W.slabels.copy())
        W.jfa = JFAMachine(r_U=1, r_V=1, em_iterations=1, ubm=u, random_state=0, enroll_iterations=2).fit(copy.deepcopy(W.stats), W.slabels.copy())
        np.random.seed(11)
        W.iv = IVectorMachine(u, dim_t=2, max_iterations=1).fit(copy.deepcopy(W.stats))
    W.z = W.isv.enroll(copy.deepcopy(W.stats[:2]))
    W.yz = W.jfa.enroll(copy.deepcopy(W.stats[:2]))
    return W


def _da(a, chunks):
    import dask.array as da

    return da.from_array(a, chunks=chunks)


def _ops():
    from bob.learn.em import WCCN, GMMMachine, GMMStats, ISVMachine, IVectorMachine, JFAMachine, KMeansMachine, Whitening, linear_scoring
    import dask.bag as db

    def km(W, **kw):
        return KMeansMachine(2, init_method=W.init, convergence_threshold=None, **kw)

    def gmm(W, **kw):
        return GMMMachine(2, k_means_trainer=km(W, max_iter=1), update_means=True, update_variances=True, update_weights=True,
                          max_fitting_steps=2, convergence_threshold=None, **kw)

    def gmap(W, **kw):
        return GMMMachine(2, trainer="map", ubm=W.prior, update_means=True, update_variances=True, update_weights=True,
                          max_fitting_steps=2, convergence_threshold=None, **kw)

    def isv(W):
        return ISVMachine(r_U=1, em_iterations=1, ubm=W.ubm, random_state=0, enroll_iterations=2)

    def jfa(W):
        return JFAMachine(r_U=1, r_V=1, em_iterations=1, ubm=W.ubm, random_state=0, enroll_iterations=2)

    def _seeded(f):
        np.random.seed(5)
        return f()

    def ivfit(W, X):
        np.random.seed(5)
        return IVectorMachine(W.ubm, dim_t=2, max_iterations=2).fit(X)

    def _pool_from_empty(W):
        pooled = GMMStats(2, 2) + W.stats[0]
        pooled += W.stats[1]
        pooled2 = W.stats[2] + GMMStats(2, 2)
        pooled2 += W.stats[3]
        return pooled, pooled2

    def iadd(W):
        a = copy.deepcopy(W.stats[0])
        a += W.stats[1]
        a += W.stats[2]
        return a

    def gmm_given(W, route, **kw):
        """a machine whose weights / variances are arrays of the caller"""
        g = GMMMachine(2, weights=W.relw if route == "ctor" else None, update_means=True, update_variances=True, update_weights=True,
                       max_fitting_steps=2, convergence_threshold=None, **kw)
        g.means = W.init
        g.variance_thresholds = 0.5 * float(W.smallvar.max())
        g.variances = W.smallvar  # partly below the floor
        if route == "setter":
            g.weights = W.relw2
        return g

    def handover(W):
        g = GMMMachine(2, update_means=True, update_variances=True, update_weights=True, max_fitting_steps=1)  # everything is re-estimated
        g.variance_thresholds = 4.0 * float(np.asarray(W.ubm.variances).max())
        g.means, g.variances, g.weights = W.ubm.means, W.ubm.variances, W.ubm.weights  # the very arrays the getters of another machine return
        return g.fit(W.X)

    O = {
        "km_fit_n_equals_k": lambda W: km(W, max_iter=2).fit(W.Xk),
        "km_fit_random_n_equals_k": lambda W: KMeansMachine(2, init_method="random", random_state=3, max_iter=2).fit(W.Xk),
        "gmm_given_ctor_fit": lambda W: gmm_given(W, "ctor").fit(W.X),
        "gmm_given_setter_fit": lambda W: gmm_given(W, "setter").fit(W.X),
        "gmm_given_setter_fit_dask": lambda W: gmm_given(W, "setter").fit(_da(W.X, (3, 2))),
        "gmm_given_map_fit": lambda W: gmm_given(W, "setter", trainer="map", ubm=W.prior).fit(W.X),
        "gmm_handover_fit": handover,
        "isv_fit_array_neg_labels": lambda W: isv(W).fit_using_array(W.X, W.yneg),
        "jfa_fit_array_neg_labels_dask": lambda W: jfa(W).fit_using_array(_da(W.X, (3, 2)), W.yneg),
        "isv_fit_array_ubm_kwargs": lambda W: ISVMachine(r_U=1, em_iterations=1, ubm=W.ubm, ubm_kwargs=W.ubm_kw, random_state=0).fit_using_array(W.X, W.y),
        "jfa_fit_array_lazy_ubm": lambda W: JFAMachine(r_U=1, r_V=1, em_iterations=1, ubm=None, ubm_kwargs=W.lazy_kw, random_state=3).fit_using_array(W.X, W.y),
        "km_fit": lambda W: km(W, max_iter=2).fit(W.X),
        "km_fit_iter0": lambda W: km(W, max_iter=0).fit(W.X),
        "km_fit_dask": lambda W: km(W, max_iter=2).fit(_da(W.X, (3, 2))),
        "km_fit_random": lambda W: KMeansMachine(2, init_method="random", random_state=3, max_iter=1).fit(W.X),
        "km_transform": lambda W: km(W, max_iter=1).fit(W.X).transform(W.X),
        "km_predict_dask": lambda W: np.asarray(km(W, max_iter=0).fit(W.X).predict(_da(W.X, (5, 2)))),
        "km_var_weights": lambda W: km(W, max_iter=0).fit(W.X).get_variances_and_weights_for_each_cluster(W.X),
        "km_var_weights_dask": lambda W: km(W, max_iter=0).fit(W.X).get_variances_and_weights_for_each_cluster(_da(W.X, (3, 2))),
        "km_var_weights_ordered": lambda W: (km(W, max_iter=4).fit(W.Xord).get_variances_and_weights_for_each_cluster(W.Xord),
                                             km(W, max_iter=4).fit(W.Xord).get_variances_and_weights_for_each_cluster(_da(W.Xord, (4, 2)))),
        "gmm_fit_ordered_dask": lambda W: GMMMachine(2, k_means_trainer=km(W, max_iter=4), update_means=True, update_variances=True, update_weights=True,
                                                     max_fitting_steps=1, convergence_threshold=None).fit(_da(W.Xord, (4, 2))),
        "km1_var_weights": lambda W: KMeansMachine(1, init_method=W.init[:1], max_iter=1).fit(W.X).get_variances_and_weights_for_each_cluster(W.X),
        "gmm1_fit": lambda W: GMMMachine(1, k_means_trainer=KMeansMachine(1, init_method=W.init[:1], max_iter=1), max_fitting_steps=1, update_variances=True).fit(W.X),
        "gmm_fit": lambda W: gmm(W).fit(W.X),
        "gmm_fit_dask": lambda W: gmm(W).fit(_da(W.X, (3, 2))),
        "gmm_fit_nosteps": lambda W: GMMMachine(2, k_means_trainer=km(W, max_iter=0), max_fitting_steps=0).fit(W.X),
        "gmm_map_fit": lambda W: gmap(W).fit(W.X),
        "gmm_map_fit_dask": lambda W: gmap(W).fit(_da(W.X, (5, 2))),
        "gmm_map_frozen": lambda W: GMMMachine(2, trainer="map", ubm=W.prior, update_means=False, update_variances=False, update_weights=False, max_fitting_steps=1).fit(W.X),
        "gmm_map_construct": lambda W: GMMMachine(2, trainer="map", ubm=W.prior),
        "acc_stats": lambda W: W.ubm.acc_stats(W.X),
        "acc_stats_dask": lambda W: W.ubm.acc_stats(_da(W.X, (3, 2))),
        "gmm_transform": lambda W: W.ubm.transform(W.frames),
        "gmm_loglik": lambda W: (W.ubm.log_likelihood(W.X), W.ubm.log_weighted_likelihood(W.X), W.prior.log_likelihood(W.X[0])),
        "stats_add": lambda W: W.stats[0] + W.stats[1] + W.stats[2],
        "stats_iadd": iadd,
        "stats_add_empty_then_iadd": lambda W: _pool_from_empty(W),
        "linear_arrays": lambda W: linear_scoring(W.models, W.ubm, W.stats, 0, False),
        "linear_offsets_norm": lambda W: linear_scoring(W.models, W.ubm, W.stats, W.offsets, True),
        "linear_machines": lambda W: linear_scoring([W.prior, W.ubm], W.ubm, W.stats[1], 0, True),
        "isv_fit": lambda W: isv(W).fit(W.stats, W.slabels),
        "isv_fit_bag": lambda W: isv(W).fit(db.from_sequence(W.stats, npartitions=2), W.slabels),
        "isv_fit_array": lambda W: isv(W).fit_using_array(W.X, W.y),
        "isv_fit_array_dask": lambda W: isv(W).fit_using_array(_da(W.X, (3, 2)), W.y),
        "isv_enroll": lambda W: W.isv.enroll(W.stats[:3]),
        "isv_enroll_array": lambda W: W.isv.enroll_using_array(W.X),
        "isv_score": lambda W: W.isv.score(W.z, W.stats[1:4]),
        "isv_score_single": lambda W: W.isv.score(W.z, [W.stats[2]]),
        "isv_score_array": lambda W: W.isv.score_using_array(W.z, W.frames[:2]),
        "isv_estimate": lambda W: (W.isv.estimate_x(W.stats[:2]), W.isv.estimate_ux(W.stats[:2]), W.isv.transform(W.X)),
        "jfa_fit": lambda W: jfa(W).fit(W.stats, W.slabels),
        "jfa_fit_bag": lambda W: jfa(W).fit(db.from_sequence(W.stats, npartitions=3), W.slabels),
        "jfa_fit_array": lambda W: jfa(W).fit_using_array(W.X, W.ylist),
        "jfa_enroll": lambda W: W.jfa.enroll(W.stats[:3]),
        "jfa_score": lambda W: W.jfa.score(W.yz, W.stats[1:4]),
        "jfa_score_array": lambda W: (W.jfa.score_using_array(W.yz, W.frames[:2]), W.jfa.enroll_using_array(W.X)),
        "iv_fit": lambda W: ivfit(W, W.stats),
        "iv_fit_bag": lambda W: ivfit(W, db.from_sequence(W.stats, npartitions=2)),
        "iv_fit_nosigma_floor": lambda W: _seeded(lambda: IVectorMachine(W.ubm, dim_t=2, max_iterations=2, update_sigma=False,
                                                                          variance_floor=float(np.asarray(W.ubm.variances).max()) * 2).fit(W.stats)),
        "iv_fit_sigma_floor": lambda W: _seeded(lambda: IVectorMachine(W.ubm, dim_t=2, max_iterations=2, update_sigma=True,
                                                                        variance_floor=float(np.asarray(W.ubm.variances).max()) * 2).fit(W.stats)),
        "iv_project": lambda W: (W.iv.project(W.stats[0]), W.iv.transform(W.stats)),
        "wccn": lambda W: (lambda m: (m, m.transform(list(W.X[:3]))))(WCCN().fit(W.X, W.y)),
        "wccn_dask": lambda W: (lambda m: np.asarray(m.weights))(WCCN().fit(_da(W.X, (3, 2)), W.y)),
        "whitening": lambda W: (lambda m: (m, m.transform(W.X)))(Whitening().fit(W.X)),
        "whitening_dask": lambda W: (lambda m: (np.asarray(m.weights), np.asarray(m.input_subtract)))(Whitening().fit(_da(W.X, (3, 2)))),
    }
    return O


def arrays_of(obj, out=None, depth=0, skip_ubm=True):
    """All ndarrays reachable from a result (model objects, tuples, lists, statistics)."""
    if out is None:
        out = []
    if depth > 5 or obj is None:
        return out
    if isinstance(obj, np.ndarray):
        out.append(obj)
    elif isinstance(obj, (list, tuple)):
        for v in obj:
            arrays_of(v, out, depth + 1)
    elif isinstance(obj, dict):
        for v in obj.values():
            arrays_of(v, out, depth + 1)
    elif hasattr(obj, "__dict__") and type(obj).__module__.startswith(("bob.", "props.")):
        for k, v in vars(obj).items():
            if skip_ubm and k in ("ubm", "k_means_trainer", "init_method", "random_state"):
                continue  # constructor arguments are kept by reference by design (scikit-learn convention); not trained parameters
            arrays_of(v, out, depth + 1)
    elif hasattr(obj, "compute"):
        pass
    return out


def world_arrays(W):
    return arrays_of(W, skip_ubm=False)


def snapshot(W):
    return pickle.dumps(bfs.canon(W), protocol=4)


def result_value(r):
    """Comparable form of a result."""
    return pickle.dumps(bfs.canon(_strip(r)), protocol=4)


def _strip(r, depth=0):
    if depth > 5:
        return None
    if hasattr(r, "compute"):
        return np.asarray(r)
    if isinstance(r, (list, tuple)):
        return [_strip(v, depth + 1) for v in r]
    if hasattr(r, "__dict__") and type(r).__module__.startswith("bob."):
        return {k: _strip(v, depth + 1) for k, v in vars(r).items() if k not in ("ubm", "k_means_trainer", "m_step_func", "random_state", "init_method")}
    return r


def cases(tier, seed):
    names = sorted(_ops())
    return [dict(first=nm, depth=DEPTH[tier], seed=seed) for nm in names]


def run_case(case):
    import dask

    c = Ctx()
    s, o = affine(case["seed"])
    O = _ops()
    names = sorted(O)
    with dask.config.set(scheduler="sync"):
        W0 = make_world(s, o)
        snap0 = snapshot(W0)
        rng0 = np.random.get_state()
        ref = {}

        def apply(W, nm):
            r = O[nm](W)
            return r

        def check_transition(W, nm, r, hist):
            tags = dict(op=nm)
            c.check(snapshot(W) == snap0, "inputs_unchanged", lambda: f"a caller-owned object changed during {nm} after {hist[:-1]}: {_diff(W0, W)}", tags)
            if nm not in ref:
                Wf = copy.deepcopy(W0)
                ref[nm] = result_value(O[nm](Wf))
            c.check(result_value(r) == ref[nm], "reuse_same_result", f"{nm} after {hist[:-1]} gives a different result than on fresh inputs", tags)
            wa = world_arrays(W)
            for a in arrays_of(r):
                for b in wa:
                    if a is b or np.shares_memory(a, b):
                        c.check(False, "aliasing", f"a result array of {nm} shares memory with a caller-owned array (after {hist[:-1]})", tags)
                        return
            c.check(True, "aliasing", "")

        def key_fn(W):
            h = W._hist
            W._hist = None
            k = bfs.key_of(W, extra=[x.tobytes() if isinstance(x, np.ndarray) else str(x) for x in np.random.get_state()[1:3]])
            W._hist = h
            return k

        def apply_wrapped(W, nm):
            # the history is carried on the world object but excluded from snapshots / keys
            h = W._hist
            W._hist = None
            r = apply(W, nm)
            check_transition(W, nm, r, h + [nm])
            W._hist = h + [nm]
            return W

        def invariant(W, hist):
            pass

        W0._hist = None
        snap0 = snapshot(W0)
        root = copy.deepcopy(W0)
        root._hist = []
        first = case["first"]
        r1 = apply_wrapped(root, first)
        c.transitions += 1
        S = bfs.bfs(r1, names, apply_wrapped, invariant, case["depth"] - 1, key_fn=key_fn, root_history=[first])
        c.states = S.states
        c.transitions += S.transitions
        c.count("bfs_states", S.states)
        c.count("bfs_transitions", S.transitions)
        # overwrite-after-call: the returned model must not follow later in-place changes of the inputs
        W = copy.deepcopy(W0)
        W._hist = None
        r = O[first](W)
        before = result_value(r)
        for a in world_arrays(W):
            if a.flags.writeable:
                a[...] = 777 if a.dtype.kind in "fiu" else a
        c.check(result_value(r) == before, "follows_input_changes", f"result of {first} changed when its inputs were overwritten in place afterwards", dict(op=first))
        c.transitions += 1
        np.random.set_state(rng0)
    c.traces = c.transitions
    return c.result(nontrivial=True, sig=first)


def _diff(A, B):
    out = []
    for k in vars(A):
        if k.startswith("_"):
            continue
        if pickle.dumps(bfs.canon(getattr(A, k))) != pickle.dumps(bfs.canon(getattr(B, k, None))):
            out.append(k)
    return out
