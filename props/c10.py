"""C10 - i-vectors are posterior means; i-vector EM never decreases the likelihood.

Projection cases = UBM x (T, sigma) x statistics (fractional counts, zero-count component, zero frames) x dim_t, incl.
histories in which T / sigma of the same machine are replaced or rescaled in place between projections.
Training cases = UBM x training set x seed x update_sigma x floor; inside, max_iterations = 1..K: every iteration is
compared with the EM step *definition* applied to the previous model, the marginal log-likelihood (with the covariance
terms) must not decrease while no floor is active, covariances stay >= floor, everything finite.
"""
import copy

import numpy as np

from mc import oracle_fa as ofa
from mc.util import Ctx, affine, sync_dask
from props import c11

PROPERTY = "C10"
RULE = (
    "projection: 3 UBMs x 4 (T, sigma) patterns x 6 statistics objects x dim_t in {1,2,3}, each also after sigma is replaced "
    "and T rescaled in place on the same machine; training: 3 UBMs x 4 training sets x seeds {0,1,2} x update_sigma x floors "
    "{1e-10, 1/2, 2} x list/bag, iterations 1..K with per-step comparison against the EM definition and the likelihood test. "
    "Non-trivial: projection differs from zero / first training step raises the likelihood by > 1e-9; distinct = distinct case"
)
ASSUMPTIONS = ["the initial T of fit() is reproduced by seeding NumPy's global generator (np.random.seed) exactly as the trainer draws it",
               "steps in which a covariance sits at the floor are compared with the definition but excluded from the monotonicity test"]
BUDGET = {"quick": 900, "thorough": 3 * 3600}
K_IT = {"quick": 4, "thorough": 6}


def cases(tier, seed):
    out = []
    for u in range(3):
        for tp in (range(4) if tier == "quick" else range(12)):
            for dt in ((1, 2, 3) if tier == "quick" else (1, 2, 3, 4, 5)):
                out.append(dict(kind="project", ubm=u, tp=tp, dim_t=dt, seed=seed))
    for u in range(3):
        for ts in range(4):
            for rs in ((0, 1, 2) if tier == "quick" else (0, 1, 2, 3, 4, 5, 6, 7)):
                for upd in (True, False):
                    for fl in (1e-10, 0.5, 2.0, 0.0):
                        for bag in (False, True):
                            if not upd and fl != 1e-10:
                                continue
                            if tier == "quick" and bag and (rs + ts) % 2:
                                continue
                            out.append(dict(kind="train", ubm=u, tset=ts, rs=rs, upd=upd, floor=fl, bag=bag, K=K_IT[tier], seed=seed))
                            if fl == 1e-10 and not bag and len(c11.UBMS[u]["mu"]) >= 2 and rs < 3:
                                Cn = len(c11.UBMS[u]["mu"])
                                for emp in ([[0]] if Cn == 2 else [[0], [1], [0, 2]]):
                                    out.append(dict(kind="train", ubm=u, tset=ts, rs=rs, upd=upd, floor=fl, bag=False, K=K_IT[tier], seed=seed, empty=emp))
                            if fl == 1e-10 and not bag and (rs + ts) % 2 == 0:
                                # a component with a small fractional occupation and a larger i-vector dimension
                                out.append(dict(kind="train", ubm=u, tset=ts, rs=rs, upd=upd, floor=fl, bag=False, K=K_IT[tier], seed=seed, dim_t=6, tiny=True))
    return out


def _stat_objects(ubm, s, o):
    from bob.learn.em import GMMStats

    C, D = ubm.means.shape
    frames = [np.array(f, float)[:, :D] * s + o for f in c11.FRAMES]
    out = [ubm.acc_stats(f) for f in frames[:3]]
    h = ubm.acc_stats(frames[0])
    h.n, h.sum_px, h.sum_pxx = h.n * 0.25, h.sum_px * 0.25, h.sum_pxx * 0.25
    out.append(h)
    z = ubm.acc_stats(frames[2])
    z.n[-1], z.sum_px[-1], z.sum_pxx[-1] = 0.0, 0.0, 0.0
    out.append(z)
    out.append(GMMStats(C, D))
    bal = GMMStats(C, D)  # a recording with frames whose first-order statistics sit exactly on the UBM means
    bal.t = 2 * C
    bal.n = np.full(C, 2.0)
    bal.sum_px = 2.0 * np.asarray(ubm.means, float)
    bal.sum_pxx = 2.0 * (np.asarray(ubm.means, float) ** 2 + 0.5 * np.asarray(ubm.variances, float))
    out.append(bal)
    # element-wise equal to recordings 1 and 2, but the arrays are held column-major / as a transposed view
    f1 = copy.deepcopy(out[1])
    f1.sum_px, f1.sum_pxx = np.asfortranarray(np.asarray(f1.sum_px, float)), np.asfortranarray(np.asarray(f1.sum_pxx, float))
    out.append(f1)
    f2 = copy.deepcopy(out[2])
    f2.sum_px, f2.sum_pxx = np.ascontiguousarray(np.asarray(f2.sum_px, float).T).T, np.ascontiguousarray(np.asarray(f2.sum_pxx, float).T).T
    out.append(f2)
    return out


def _project_case(case, c, s, o):
    from bob.learn.em import IVectorMachine

    ubm = c11._ubm(c11.UBMS[case["ubm"]], s, o)
    C, D = ubm.means.shape
    um = np.asarray(ubm.means, float)
    t = case["dim_t"]
    m = IVectorMachine(ubm, dim_t=t, update_sigma=bool((case["tp"] + t) % 2))  # the projection must not depend on this training switch
    m.dim_c, m.dim_d = C, D
    T = c11._pattern((C, D, t), case["tp"], s) + 0.25 * s * (np.arange(t) == 0)
    sig = (np.abs(c11._pattern((C, D), case["tp"] + 1, 1.0)) + 0.25) * s * s
    m.T = T.copy()
    m.sigma = sig.copy()
    stats = _stat_objects(ubm, s, o)
    tags = dict(dim_t=t)
    nonzero = False

    def check_all(Tm, sm, what):
        nonlocal nonzero
        for j, st in enumerate(stats):
            w = np.asarray(m.project(st), float)
            want, _, _ = ofa.ivector(um, Tm, sm, np.asarray(st.n, float), np.asarray(st.sum_px, float))
            c.check(w.shape == (t,), "shape", f"{what}: i-vector shape {w.shape}", tags)
            c.close(w, want, "posterior_mean", f"{what}: project(statistics {j}) vs solution of the posterior-mean system", tags, rtol=1e-8, scale=1.0, kappa=1e4)
            if st.t == 0:
                c.check(bool(np.all(w == 0)), "zero_frames", f"{what}: statistics without frames must give the zero vector, got {w.tolist()}", tags)
            nonzero |= bool(np.abs(want).max() > 1e-9)
            c.transitions += 1
        tr = m.transform(stats)
        c.check(isinstance(tr, list) and len(tr) == len(stats), "transform", "transform(list) must return one i-vector per element", tags)
        for j, (a, st) in enumerate(zip(tr, stats)):
            c.close(np.asarray(a, float), np.asarray(m.project(st), float), "transform", f"{what}: transform element {j} vs project", tags, rtol=1e-13)
        c.transitions += 1

    check_all(T, sig, "configured machine")
    # histories on the same machine object
    sig2 = sig[::-1].copy() * 2.0
    m.sigma = sig2.copy()
    check_all(T, sig2, "after sigma was replaced")
    m.T *= 0.5
    check_all(T * 0.5, sig2, "after T was rescaled in place")
    m.T = (T + 1.0 * s).copy()
    m.sigma = sig.copy()
    check_all(T + 1.0 * s, sig, "after T and sigma were replaced")
    if C >= 2:
        # a long recording (2^18 frames per component) with a tiny fractional count (2^-10 of a frame) on a sharp, strongly
        # loaded component: that component still shapes the posterior
        from bob.learn.em import GMMStats

        Tl, sl = T.copy(), sig.copy()
        Tl[0] *= 16.0
        sl[0] = 2.0**-16 * s * s
        m.T, m.sigma = Tl.copy(), sl.copy()
        lg = GMMStats(C, D)
        lg.n = np.array([2.0**-10] + [2.0**18] * (C - 1))
        lg.t = int(2**18 * (C - 1))
        off = (np.abs(c11._pattern((C, D), case["tp"] + 2, 1.0)) + 0.5) * s * 2.0**-6
        off[0] = 0.5 * s
        lg.sum_px = lg.n[:, None] * (um + off)
        lg.sum_pxx = lg.n[:, None] * ((um + off) ** 2 + sl)
        w = np.asarray(m.project(lg), float)
        want, _, _ = ofa.ivector(um, Tl, sl, np.asarray(lg.n, float), np.asarray(lg.sum_px, float))
        c.close(w, want, "posterior_mean", "long recording with a tiny count on a sharp component: project vs solution of the posterior-mean system", tags,
                rtol=1e-7, scale=float(np.abs(want).max()) + 1e-12, kappa=1e6)
        c.transitions += 1
    return nonzero, "p|%d|%d|%d" % (case["ubm"], case["tp"], t)


def _lazy(part):
    return (st for st in part)


def _em_step(um, T, sig, stats, upd, floor):
    """One EM iteration of the total-variability model from the definition. Returns (T', sigma', floor_active)."""
    C, D = um.shape
    t = T.shape[-1]
    A = np.zeros((C, t, t))
    Cc = np.zeros((C, D, t))
    S = np.zeros((C, D))
    Nt = np.zeros(C)
    for (N, F, Sxx) in stats:
        w, L, b = ofa.ivector(um, T, sig, N, F)
        Eww = np.linalg.inv(L) + np.outer(w, w)
        for cc in range(C):
            A[cc] += N[cc] * Eww
            Cc[cc] += np.outer(F[cc] - N[cc] * um[cc], w)
            S[cc] += Sxx[cc] - 2 * F[cc] * um[cc] + N[cc] * um[cc] ** 2
        Nt += N
    T2 = np.zeros_like(T)
    for cc in range(C):
        if np.any(A[cc]):
            T2[cc] = np.linalg.solve(A[cc].T, Cc[cc].T).T  # T_c A_c = C_c
    sig2 = sig.copy()
    active = False
    if upd:
        for cc in range(C):
            if Nt[cc] > 0:
                raw = (S[cc] - np.einsum("dt,dt->d", Cc[cc], T2[cc])) / Nt[cc]
                active |= bool(np.any(raw <= floor * (1 + 1e-9)))
                sig2[cc] = np.maximum(raw, floor)
            else:
                active |= bool(np.any(sig2[cc] <= floor * (1 + 1e-9)))
                sig2[cc] = np.maximum(sig2[cc], floor)
    return T2, sig2, active


def _train_case(case, c, s, o):
    import dask.bag as db

    from bob.learn.em import IVectorMachine

    ubm = c11._ubm(c11.UBMS[case["ubm"]], s, o)
    C, D = ubm.means.shape
    um = np.asarray(ubm.means, float)
    allst = _stat_objects(ubm, s, o)
    ts = case["tset"]
    stats = [allst[:3], allst[:5] + [allst[6]], allst[1:7], [allst[0], allst[0], allst[3], allst[2], allst[6]]][ts]
    if case["bag"] and (case["rs"] + ts) % 2 == 0:
        stats = (stats * 5)[:13]  # 13 partitions: odd counts at several levels of any tree reduction
    if case["floor"] == 0.0:
        stats = copy.deepcopy(stats)
        stats[0].sum_pxx = np.asarray(stats[0].sum_pxx, float) * 0.25  # second moments not tied to the first ones: raw covariance estimates can be negative
    if case.get("empty") is not None:
        # components that no recording of the training set ever visits (not only the last one)
        stats = copy.deepcopy(stats)
        for st in stats:
            for e in case["empty"]:
                if e < C - 0:
                    st.n[e], st.sum_px[e], st.sum_pxx[e] = 0.0, 0.0, 0.0
    if case.get("tiny"):
        stats = copy.deepcopy(stats)
        for st in stats:
            st.n[0], st.sum_px[0], st.sum_pxx[0] = st.n[0] * 2.0**-11, st.sum_px[0] * 2.0**-11, st.sum_pxx[0] * 2.0**-11
    tup = [(np.asarray(st.n, float), np.asarray(st.sum_px, float), np.asarray(st.sum_pxx, float)) for st in stats]
    t = case.get("dim_t", 2)
    floor = case["floor"] * (s * s if case["floor"] > 1e-6 else 1.0)
    tags = dict(upd=case["upd"], bag=case["bag"])

    def fit(k):
        np.random.seed(case["rs"])
        # the floor as a Python float, a NumPy scalar or a 0-d array (a value read from a file / configuration)
        fl_given = floor if case["rs"] % 3 == 0 else (np.float64(floor) if case["rs"] % 3 == 1 else np.asarray(floor, dtype=float))
        m = IVectorMachine(ubm, dim_t=t, max_iterations=k, update_sigma=case["upd"], variance_floor=fl_given)
        # bags: 2 partitions, or (every other case) one partition per statistics object of a 13-object set
        X = db.from_sequence(copy.deepcopy(stats), npartitions=len(stats) if len(stats) > 10 else 2) if case["bag"] else copy.deepcopy(stats)
        if case["bag"] and case["rs"] == 1:
            X = X.map_partitions(_lazy)  # partitions that are one-shot iterators (statistics produced on the fly)
        m.fit(X)
        c.transitions += 1
        return np.asarray(m.T, float), np.asarray(m.sigma, float)

    np.random.seed(case["rs"])
    T0 = np.random.normal(loc=0.0, scale=1.0, size=(C, D, t))
    traj = [(T0, np.asarray(ubm.variances, float).copy())]
    L = [sum(ofa.ivector_loglik(um, traj[0][0], traj[0][1], *tp) for tp in tup)]
    rose = False
    any_floor = False
    scT = 1.0
    # with a floor of exactly 0 a covariance estimate can legitimately become 0, after which nothing is defined any more:
    # only the first iteration is observed there (the floor itself must still hold)
    for k in range(1, (1 if case["floor"] == 0.0 else case["K"]) + 1):
        Tk, sk = fit(k)
        c.check(Tk.shape == (C, D, t) and sk.shape == (C, D), "shapes", f"T{Tk.shape} sigma{sk.shape}", tags)
        c.check(bool(np.all(np.isfinite(Tk)) and np.all(np.isfinite(sk))), "finite", f"non-finite T/sigma after {k} iterations", tags)
        if c.viol:
            break
        T2, s2, active = _em_step(um, traj[-1][0], traj[-1][1], tup, case["upd"], floor)
        scT = float(np.abs(T2).max()) + 1.0
        c.close(Tk, T2, "em_step_T", f"T after iteration {k} vs the EM step definition applied to the previous model", tags, rtol=1e-7, scale=scT, kappa=1e4)
        c.close(sk, s2, "em_step_sigma", f"sigma after iteration {k} vs the EM step definition", tags, rtol=1e-7, scale=float(np.abs(s2).max()), kappa=1e4)
        if case["upd"]:
            c.check(bool(np.all(sk >= floor)), "sigma_floor", lambda: f"sigma {sk.tolist()} below the floor {floor}", tags)
        Lk = sum(ofa.ivector_loglik(um, Tk, sk, *tp) for tp in tup)
        if active:
            any_floor = True
            c.count("floor_active_steps")
        else:
            c.check(Lk >= L[-1] - 1e-9 * max(1.0, abs(L[-1])), "monotone", f"marginal log-likelihood fell from {L[-1]!r} to {Lk!r} at iteration {k}", tags)
        if k == 1 and Lk - L[0] > 1e-9:
            rose = True
        L.append(Lk)
        traj.append((Tk, sk))
        c.states += 1
    return rose and not any_floor, "t|%d|%d|%d|%s|%s|%s|%s" % (case["ubm"], ts, case["rs"], case["upd"], case["floor"], case["bag"], (case.get("dim_t"), case.get("empty")))


def run_case(case):
    sync_dask()
    c = Ctx()
    s, o = affine(case["seed"])
    state = np.random.get_state()
    try:
        if case["kind"] == "project":
            nt, sig = _project_case(case, c, s, o)
        else:
            nt, sig = _train_case(case, c, s, o)
    finally:
        np.random.set_state(state)
    c.traces = c.transitions
    return c.result(nontrivial=nt, sig=sig)
