"""C04 - array training is independent of chunking, task order and worker isolation.

Case = trainer configuration x row composition x feature-axis composition x executor (shared / serialised).
Inside a case the controlled scheduler (mc/sched.py) enumerates task orders: every linear extension of the library
tasks when that is at most FULL_LIMIT executions, otherwise every schedule with <= d deviations from the canonical
order. Oracle: the same trainer on the in-memory array.
"""
import numpy as np

from mc import sched
from mc.util import Ctx, affine, compositions

PROPERTY = "C04"
RULE = (
    "complete product: trainer config (k-means explicit/random init, GMM-ML x switch sets with and without threshold, "
    "GMM from k-means, GMM-MAP, ISV/JFA fit_using_array, WCCN, whitening) x every composition of n rows into chunks x "
    "feature-axis compositions (k-means, GMM) x executor {shared, serialised}; per case all task orders (or all with "
    "<= d deviations) through the controlled scheduler; oracle = same trainer on the numpy array. Non-trivial: the "
    "explored graph had >= 2 concurrently ready library tasks (>= 2 schedules) or >= 2 chunks; distinct = distinct "
    "(trainer, layout, executor)"
)
ASSUMPTIONS = [
    "tasks execute atomically; placements are all-shared or all-serialised (mixed placements not enumerated)",
    "infrastructure tasks (getitem/list/array blocks) are not branched on except in the WCCN/whitening cases, where every task is",
    "k-means|| initial centroids are excluded here (known finding K2 is checked by sub-check kmeans_parallel_init)",
]
BUDGET = {"quick": 900, "thorough": 4 * 3600}
FULL_LIMIT = {"quick": 40, "thorough": 800}
DEVS = {"quick": 1, "thorough": 2}

X6 = [[0, 0], [10, 10], [1, 0.5], [11, 11.5], [0.5, 1.5], [10.5, 9.5], [2, 1], [9, 12]]
X12 = [[1.75, 0.5], [1.0, 2.25], [1.75, -1.0], [1.0, -0.25], [0.0, 0.5], [0.25, 1.5], [6.75, 6.0], [6.5, 6.25],
       [7.5, 5.75], [6.25, 5.25], [3.5, 6.75], [6.75, 5.25]]
Y6 = {"inter": [0, 1, 0, 1, 0, 1, 0, 1], "mixed": [1, 0, 0, 1, 1, 0, 0, 1]}

TRAINERS = [
    ("km_explicit", dict(cap=3, thr=None)),
    ("km_explicit", dict(cap=6, thr=0.05)),
    ("km_random", dict(cap=2, thr=None, rs=1)),
    ("km_dup_init", dict(cap=2, thr=None)),
    ("gmm_ml", dict(sw=(1, 1, 1), cap=2, thr=None)),
    ("gmm_ml", dict(sw=(1, 0, 0), cap=6, thr=1e-2)),
    ("gmm_ml", dict(sw=(0, 1, 1), cap=2, thr=None)),
    ("gmm_kmeans", dict(cap=1, thr=None)),
    ("gmm_map", dict(sw=(1, 1, 1), cap=2, thr=None)),
    ("isv", dict(y="inter")),
    ("jfa", dict(y="mixed")),
    ("wccn", dict(y="inter")),
    ("whitening", dict()),
    ("wccn", dict(y="mixed", big=2.0e6 + 0.1)),
    ("whitening", dict(big=-3.0e6 - 0.3)),
    ("gmm_ml", dict(sw=(1, 1, 1), cap=8, thr=1e-3)),
    ("gmm_ml", dict(sw=(1, 1, 1), cap=8, thr=0.05)),
    ("gmm_map", dict(sw=(1, 0, 1), cap=8, thr=1e-3)),
    # thresholds placed between consecutive relative changes of the in-memory trajectory (computed at run time), so that
    # the iteration count is sensitive to any distortion of the monitored criterion (which is not publicly observable)
    ("gmm_ml", dict(sw=(1, 1, 1), cap=9, thr="adaptive", which=0)),
    ("gmm_ml", dict(sw=(1, 1, 1), cap=9, thr="adaptive", which=1)),
    ("gmm_ml", dict(sw=(1, 1, 1), cap=9, thr="adaptive", which=2)),
    ("gmm_ml", dict(sw=(1, 1, 1), cap=9, thr="adaptive", which=3)),
    ("gmm_ml", dict(sw=(1, 0, 1), cap=9, thr="adaptive", which=0)),
    ("gmm_ml", dict(sw=(1, 0, 1), cap=9, thr="adaptive", which=1)),
    ("gmm_ml", dict(sw=(1, 1, 1), cap=3, thr=None, mvt=1e-3)),
    ("gmm_map", dict(sw=(1, 1, 1), cap=3, thr=None, mvt=1e-3)),
    ("isv", dict(y="mixed", custom_D=True)),
    ("jfa", dict(y="inter", custom_D=True)),
]


def cases(tier, seed):
    out = []
    ns = [4] if tier == "quick" else [4, 5, 6]
    for name, cfg in TRAINERS:
        for n in ns:
            if name in ("wccn", "whitening", "isv", "jfa") and n < 4:
                continue
            rows = compositions(n)
            if tier == "thorough" and n == 6:
                rows = [r for r in rows if len(r) <= 4]
            fcs = [(2,), (1, 1)] if name.startswith(("km", "gmm")) else [(2,)]
            for rc in rows:
                for fc in fcs:
                    if tier == "quick" and fc == (1, 1) and len(rc) not in (1, 2):
                        continue
                    for mode in ("shared", "serialised"):
                        out.append(dict(trainer=name, cfg=cfg, n=n, rows=list(rc), feats=list(fc), mode=mode, seed=seed, tier=tier))
    # known finding K2: k-means|| initial centroids depend on the block layout
    for rc in ([(12,), (6, 6), (3, 9)] if tier == "quick" else [(12,), (6, 6), (3, 9), (4, 4, 4), (1, 11), (2, 10), (6, 3, 3)]):
        out.append(dict(trainer="km_parallel_init", cfg=dict(), n=12, rows=list(rc), feats=[2], mode="shared", seed=seed, tier=tier))
    return out


def _setup(case):
    s, o = affine(case["seed"])
    n = case["n"]
    X = np.array(X12 if case["trainer"] == "km_parallel_init" else X6[:n], dtype=float) * s + o + case["cfg"].get("big", 0.0)
    return X, s, o


def _ubm(s, o, trained=True):
    from bob.learn.em import GMMMachine

    u = GMMMachine(2)
    u.means = np.array([[0.5, 0.5], [10.5, 10.5]]) * s + o
    u.variances = np.array([[1.0, 2.0], [0.5, 1.0]]) * s * s
    u.weights = np.array([0.375, 0.625])
    return u


def _train(case, X, A):
    """A = the array handed to the library (numpy or dask). Returns the observation vector."""
    from bob.learn.em import WCCN, GMMMachine, ISVMachine, JFAMachine, KMeansMachine, Whitening

    name, cfg = case["trainer"], case["cfg"]
    s, o = affine(case["seed"])
    n = case["n"]
    if name in ("km_explicit", "km_random", "km_parallel_init", "km_dup_init"):
        if name == "km_dup_init":
            # degenerate start: two coinciding centroids (the second one never attracts a sample)
            init = np.array([[1.0, 0.5], [1.0, 0.5], [10.0, 10.0]]) * s + o
            m = KMeansMachine(3, init_method=init, max_iter=cfg["cap"], convergence_threshold=cfg["thr"])
        elif name == "km_explicit":
            init = np.array([[0.0, 0.0], [1.0, 1.0]]) * s + o
            m = KMeansMachine(2, init_method=init, max_iter=cfg["cap"], convergence_threshold=cfg["thr"])
        elif name == "km_random":
            m = KMeansMachine(2, init_method="random", random_state=cfg["rs"], max_iter=cfg["cap"], convergence_threshold=cfg["thr"])
        else:
            m = KMeansMachine(2, init_method="k-means||", random_state=0, max_iter=0)
        m.fit(A)
        v, w = m.get_variances_and_weights_for_each_cluster(A) if name != "km_parallel_init" else (np.zeros(1), np.zeros(1))
        return dict(centroids=np.array(m.centroids_), criterion=np.array(float(m.average_min_distance)), cl_var=np.array(v), cl_w=np.array(w))
    if name in ("gmm_ml", "gmm_map", "gmm_kmeans"):
        sw = cfg.get("sw", (1, 1, 1))
        kw = dict(update_means=bool(sw[0]), update_variances=bool(sw[1]), update_weights=bool(sw[2]),
                  max_fitting_steps=cfg["cap"], convergence_threshold=cfg.get("thr_value", cfg["thr"]))
        if "mvt" in cfg:
            kw["mean_var_update_threshold"] = cfg["mvt"]
        if name == "gmm_map":
            g = GMMMachine(2, trainer="map", ubm=_ubm(s, o), map_relevance_factor=2.0, **kw)
        elif name == "gmm_kmeans":
            km = KMeansMachine(2, init_method=np.array([[0.0, 0.0], [1.0, 1.0]]) * s + o, max_iter=2, convergence_threshold=None)
            g = GMMMachine(2, k_means_trainer=km, **kw)
        else:
            g = GMMMachine(2, **kw)
            g.means = np.array([[0.0, 0.0], [1.0, 1.0]]) * s + o
            g.variances = np.array([[4.0, 4.0], [4.0, 4.0]]) * s * s
            g.weights = np.array([0.25, 0.75])
        g.fit(A)
        return dict(means=np.array(g.means), variances=np.array(g.variances), weights=np.array(g.weights))
    y = np.array(Y6[cfg["y"]][:n]) if "y" in cfg else None
    if name == "isv":
        m = ISVMachine(r_U=1, em_iterations=2, ubm=_ubm(s, o), random_state=0, relevance_factor=4.0)
        if cfg.get("custom_D"):
            m.D = np.asarray(m.D, float) * 1.5 + 0.25 * s  # a residual scale assigned by the user
        m.fit_using_array(A, y)
        return dict(U=np.array(m.U), D=np.array(m.D))
    if name == "jfa":
        m = JFAMachine(r_U=1, r_V=1, em_iterations=2, ubm=_ubm(s, o), random_state=0, relevance_factor=4.0)
        if cfg.get("custom_D"):
            m.D = np.asarray(m.D, float) * 1.5 + 0.25 * s
            m.U = np.asarray(m.U, float) * 0.5
        m.fit_using_array(A, y)
        return dict(U=np.array(m.U), V=np.array(m.V), D=np.array(m.D))
    if name == "wccn":
        m = WCCN().fit(A, y)
        return dict(weights=np.asarray(m.weights), sub=np.asarray(m.input_subtract, dtype=float))
    if name == "whitening":
        m = Whitening().fit(A)
        return dict(weights=np.asarray(m.weights), sub=np.asarray(m.input_subtract, dtype=float))
    raise KeyError(name)


def _count_extensions(widths):
    tot = 1
    for w in widths:
        f = 1
        for i in range(2, w + 1):
            f *= i
        tot *= f
    return tot


def run_case(case):
    import dask
    import dask.array as da

    c = Ctx()
    X, s, o = _setup(case)
    tier = case.get("tier", "quick")
    name = case["trainer"]
    if case["cfg"].get("thr") == "adaptive":
        from mc import oracle_gmm as og

        Ls = []
        with dask.config.set(scheduler="sync"):
            for k in range(0, 8):
                cfgk = dict(case["cfg"], cap=k, thr=None)
                r = _train(dict(case, cfg=cfgk), X, X.copy())
                Ls.append(float(og.ll(X, r["weights"], r["means"], r["variances"]).mean()))
        rel = [abs((Ls[k - 2] - Ls[k - 1]) / Ls[k - 2]) for k in range(2, 8) if Ls[k - 2] != 0]
        # candidates: 2 % above / below the relative change of iterations 3, 4, 5 (well separated from the neighbouring
        # iterations' values, so the in-memory stop is unambiguous while a 2 % distortion of the criterion changes it)
        cands = []
        for i in range(1, min(4, len(rel))):
            r = rel[i]
            others = [x for j, x in enumerate(rel) if j != i]
            if r > 1e-12 and all(abs(x - r) > 0.1 * r for x in others):
                cands += [r * 1.02, r * 0.98]
        if len(cands) <= case["cfg"]["which"]:
            c.count("adaptive_threshold_unavailable")
            return c.result(nontrivial=False)
        case = dict(case, cfg=dict(case["cfg"], thr_value=float(cands[case["cfg"]["which"]])))
    tags = dict(trainer=name, mode=case["mode"], feats=len(case["feats"]))
    with dask.config.set(scheduler="sync"):
        ref = _train(case, X, X.copy())
    if name == "km_parallel_init":
        ref = _train(dict(case, rows=[case["n"]]), X, da.from_array(X.copy(), chunks=((case["n"],), (2,))))
        tags = dict(trainer=name, init="k-means||")

    def fn():
        A = da.from_array(X.copy(), chunks=(tuple(case["rows"]), tuple(case["feats"])))
        return _train(case, X, A)

    branch_all = name in ("wccn", "whitening")
    # first execution: canonical schedule; it also tells how many schedules a full enumeration needs
    out0, ctl0 = sched.run_with(fn, (), case["mode"], branch_all)
    widths = [nalt for nalt, _ in ctl0.trace]
    full = _count_extensions(widths) if not branch_all else 10**9
    bound = None if full <= FULL_LIMIT[tier] else DEVS[tier]
    if branch_all:
        bound = DEVS[tier] if tier == "thorough" else 1
    scale = float(np.abs(X).max()) ** 2 + 1.0
    outcomes = set()
    nsched = 0
    for prefix, out, ctl in sched.explore(fn, mode=case["mode"], bound=bound, branch_all=branch_all,
                                          max_execs=4000 if tier == "thorough" else 400):
        nsched += 1
        c.transitions += ctl.tasks_run
        sig = b"".join(np.ascontiguousarray(out[k]).tobytes() for k in sorted(out))
        outcomes.add(sig)
        for k in sorted(ref):
            sub = "kmeans_parallel_init" if name == "km_parallel_init" else ("criterion" if k == "criterion" else "params")
            if not c.close(out[k], ref[k], sub, f"{name} {k} chunks={case['rows']}x{case['feats']} mode={case['mode']} schedule={prefix}",
                           tags, scale=scale if k in ("criterion", "variances", "cl_var") else np.sqrt(scale)):
                break
        if c.viol:
            break
    if sched.explore.capped:
        c.count("schedule_cap_hit")
    c.states = nsched
    c.traces = nsched
    c.count("schedules", nsched)
    c.count("full_enumeration" if bound is None else "deviation_bounded")
    c.count("distinct_outcomes_gt1", 1 if len(outcomes) > 1 else 0)
    c.count("max_ready", 0)
    # determinism of replay: the canonical schedule executed twice gives bit-identical observations
    out1, ctl1 = sched.run_with(fn, (), case["mode"], branch_all)
    same = all(np.array_equal(out0[k], out1[k]) for k in out0) and ctl0.log == ctl1.log
    c.check(same, "replay_determinism", "the canonical schedule replayed twice gave different observations or task order", tags)
    nontrivial = nsched >= 2 or len(case["rows"]) >= 2
    sig = "%s|%r|%s|%s|%s" % (name, sorted(case["cfg"].items()), case["rows"], case["feats"], case["mode"])
    return c.result(nontrivial=nontrivial, sig=sig)
