HOOK_COMMITS = []
TRUST = ("Trusted: CPython/NumPy/SciPy/Dask as installed, fractions/decimal, the short reference models under mc/oracle_*.py; "
         "nothing is claimed outside the enumerated alphabets (see evidence coverage and DESIGN.md section 3).")
CHECKS = [
    dict(id="C06", technique="bounded exhaustive enumeration (data x K x initial centroids x caps x thresholds x chunkings) on the real code vs exact rational Lloyd reference",
         text="Every k-means fit of the enumerated product is executed on the implementation and compared, iteration by iteration, with an exact Fraction model of Lloyd's algorithm (centroids, reported criterion, independent distortion, stopping iteration). Exhaustive within the stated alphabets; this is the level the property needs because the defects it guards against (criterion scaled per chunk, off-by-one stop) are value- and configuration-dependent, not schedule-dependent.",
         note=TRUST),
    dict(id="C04", engine="sched", technique="stateless exploration of Dask task schedules (all linear extensions / deviation-bounded) x chunk layouts x shared|serialised executor on the real code",
         text="For every trainer configuration, every composition of the rows (and of the feature axis for k-means/GMM) and both executor models, the controlled scheduler enumerates the task orders of every graph the library submits (all linear extensions of the library tasks when few, else all schedules within the deviation bound) and every execution is compared with the in-memory training. Exhaustive within the stated bounds; schedule- and placement-dependent defects (missing copy-back, chunk-weighted reductions) cannot be reached by the suite's single default-scheduler run.",
         note=TRUST + " Scheduler model: tasks atomic, placement all-shared or all-serialised."),
    dict(id="C12", engine="sched", technique="stateless exploration of Dask task schedules (deviation-bounded) x all bag partitionings x all labelings x shared|serialised executor on the real code",
         text="ISV, JFA and i-vector training from a Dask bag is executed for every composition of the statistics into partitions (empty, single-element and class-mixing partitions included), every surjective labeling, both executor models and every task order within the deviation bound, and each execution is compared with in-memory list training; for the i-vector trainer the accumulator reaching every M-step is additionally checked to carry the total count exactly once, for 1..P partitions (both parities at every level of the pairwise tree).",
         note=TRUST + " Scheduler model: tasks atomic, placement all-shared or all-serialised."),
]
_PENDING = "check not built yet in this round (planned, see DESIGN.md section 10); not claimed until it runs clean"
NOT_APPLICABLE = [dict(property_id="C%02d" % i, reason=_PENDING) for i in range(1, 21) if "C%02d" % i not in {c["id"] for c in CHECKS}]
