HOOK_COMMITS = []
TRUST = ("Trusted: CPython/NumPy/SciPy/Dask as installed, fractions/decimal, the short reference models under mc/oracle_*.py; "
         "nothing is claimed outside the enumerated alphabets (see evidence coverage and DESIGN.md section 3).")
CHECKS = [
    dict(id="C01", technique="bounded exhaustive enumeration (machines x samples x presentations) on the real code vs 60-digit Decimal mixture density",
         text="Every machine of the enumerated product (components, features, template rotations, weight compositions, four floor kinds) scores every sample of the coordinate alphabet - bulk, tails up to 2^20 and non-dyadic values - alone, inside the batch and inside every row composition of a Dask array; each value is compared with a 60-digit Decimal evaluation of the naive normalised density (which cannot underflow), per component and for the mixture, and D=1 machines are integrated on a grid. Exhaustive within the alphabets.",
         note=TRUST),
    dict(id="C02", technique="bounded exhaustive enumeration (machines x data sets x every composition / set partition of the rows) on the real code vs Decimal responsibilities",
         text="For every machine x data set the accumulated statistics are compared with moments computed from 60-digit Decimal responsibilities, and every composition of the rows (every set partition for n<=4) is accumulated block-wise and folded with +, += and reduce(iadd) and compared with the whole-set statistics, with operand purity, Dask layouts and the shape-mismatch refusal checked; exhaustive within the alphabets.",
         note=TRUST),
    dict(id="C03", technique="bounded exhaustive enumeration (data x initial states x 8 switch sets x floors x caps x thresholds x input kinds) on the real code vs the ML M-step definition and the reference stopping rule",
         text="Every configuration of the product is trained for k = 0..K iterations; each step is compared with the ML M-step definition applied to the previous model (so any wrong update formula is seen even if it still converges), the mean log-likelihood is asserted non-decreasing whenever no floor is active, chained one-step fits must reproduce the trajectory, and every cap x threshold must return exactly the model of the iteration given by the stated stopping rule. Exhaustive within the alphabets.",
         note=TRUST),
    dict(id="C05", technique="bounded exhaustive enumeration (priors x adaptation sets x relevance/alpha x 8 switch sets x start states) on the real code vs the MAP blend definition; known finding K1 classified by evaluating the defective formula",
         text="Every MAP configuration is trained for 1..3 iterations from the prior and from a moved starting state; every step is compared with the relevance blend of the property computed from reference statistics (weights renormalised, means, variances with the prior mean squared), no-evidence components, both relevance limits and the penalised objective for means-only adaptation are asserted. A variance mismatch is attributed to known finding K1 only if it equals the defective formula exactly.",
         note=TRUST),
    dict(id="C06", technique="bounded exhaustive enumeration (data x K x initial centroids x caps x thresholds x chunkings) on the real code vs exact rational Lloyd reference",
         text="Every k-means fit of the enumerated product is executed on the implementation and compared, iteration by iteration, with an exact Fraction model of Lloyd's algorithm (centroids, reported criterion, independent distortion, stopping iteration). Exhaustive within the stated alphabets; this is the level the property needs because the defects it guards against (criterion scaled per chunk, off-by-one stop) are value- and configuration-dependent, not schedule-dependent.",
         note=TRUST),
    dict(id="C04", engine="sched", technique="stateless exploration of Dask task schedules (all linear extensions / deviation-bounded) x chunk layouts x shared|serialised executor on the real code",
         text="For every trainer configuration, every composition of the rows (and of the feature axis for k-means/GMM) and both executor models, the controlled scheduler enumerates the task orders of every graph the library submits (all linear extensions of the library tasks when few, else all schedules within the deviation bound) and every execution is compared with the in-memory training. Exhaustive within the stated bounds; schedule- and placement-dependent defects (missing copy-back, chunk-weighted reductions) cannot be reached by the suite's single default-scheduler run.",
         note=TRUST + " Scheduler model: tasks atomic, placement all-shared or all-serialised."),
    dict(id="C12", engine="sched", technique="stateless exploration of Dask task schedules (deviation-bounded) x all bag partitionings x all labelings x shared|serialised executor on the real code",
         text="ISV, JFA and i-vector training from a Dask bag is executed for every composition of the statistics into partitions (empty, single-element and class-mixing partitions included), every surjective labeling, both executor models and every task order within the deviation bound, and each execution is compared with in-memory list training; for the i-vector trainer the accumulator reaching every M-step is additionally checked to carry the total count exactly once, for 1..P partitions (both parities at every level of the pairwise tree).",
         note=TRUST + " Scheduler model: tasks atomic, placement all-shared or all-serialised."),
]
CHECKS += [
    dict(id="C17", engine="bfs", technique="explicit-state BFS over public-operation histories on the live object (states de-duplicated by full object state), invariant evaluated on every transition",
         text="From four start states every sequence of up to 3 (thorough 4) public operations over a 28-operation menu (setters in any order with scalar / per-feature / per-component floors raised and lowered, single EM steps for all 8 switch sets, deepcopy, pickle, HDF5 save/from_hdf5, load) is executed on the real machine; in every reached state likelihoods, per-component values and statistics must equal those of a machine freshly built from the visible parameters and the independent definition, and variances must respect the current floors.",
         note=TRUST),
    dict(id="C18", engine="bfs", technique="bounded exhaustive enumeration of reachable machine states (all operation sequences <= 2) x recorded settings x round-trip histories on the real code",
         text="Every reachable state of the enumerated histories, crossed with iteration limits (incl. none), thresholds (incl. none) and switch sets, is written and re-read 1..3 times through paths and open files, through from_hdf5 and load() into objects of other shapes; bit-identity, package equality, identical scores, recorded settings, equality of the re-saved file, identical further training and a synthesised legacy file are asserted; statistics containers likewise.",
         note=TRUST),
]
CHECKS += [
    dict(id="C13", technique="bounded exhaustive enumeration (trainers x degenerate data sets x switch sets x floors x input kinds x iteration counts) on the real code, validity predicates on every observed model",
         text="Every trainer is run on every degenerate data set of the alphabet (duplicates only, constant column, fewer distinct points than components, far outlier, cluster-ordered blocks, single sample; zero-count i-vector components, frame-less statistics) for every switch set, floor arrangement (set before / raised after the variances) and chunking, and the model is observed after every iteration count: finiteness, simplex, variances >= floors > 0, i-vector covariance floor, finite training likelihoods.",
         note=TRUST),
    dict(id="C19", engine="bfs", technique="explicit-state BFS over sequences of public entry points that share one set of caller-owned inputs; bitwise input snapshots, result reproducibility and memory-aliasing checks on every transition",
         text="47 public entry points (fit / fit_using_array / enroll / score / transform / project / acc_stats / linear_scoring / statistics addition, numpy, dask-array and dask-bag inputs) are chained in every order up to the tier's depth on one shared world of inputs; after every call all inputs must be bit-identical, the result must equal the result on fresh inputs, and no parameter array may share memory with an input; per entry point the inputs are finally overwritten in place and the returned model must not change.",
         note=TRUST),
]
CHECKS += [
    dict(id="C20", technique="bounded exhaustive enumeration (data incl. large offsets x centroid sets x presentations x every row composition) on the real code vs exact rational arithmetic",
         text="For every data set x offset x centroid set the reported squared distances, predicted labels (ties excluded exactly), per-cluster weights and biased variances are compared with exact rational values, for the batch, every single sample and every row composition of a Dask array; a GMM initialised from the k-means result must start from exactly these centroids / variances (floored) / weights and its first EM step must match the definition.",
         note=TRUST),
]
CHECKS += [
    dict(id="C07", technique="bounded exhaustive enumeration (UBMs x subspaces x statistics lists x iteration counts, plus setter histories) on the real code vs block-coordinate ascent derived from the joint posterior's quadratic form",
         text="For every ISV/JFA model and enrolment list the joint log-posterior of (y, x_h, z) is assembled as one quadratic form from the model definition; the factors returned after k = 1..6, 50, 200 enrolment iterations must equal k exact coordinate-ascent sweeps of that form (which are monotone by construction, checked) and, for large k, the unique mode solve(P, b); the same is re-checked after U/V are replaced on the same machine object. D of order 1 makes the z coupling visible (the suite's D ~ 1e-10 hides it).",
         note=TRUST),
    dict(id="C08", technique="bounded exhaustive enumeration (UBMs x statistics sets x model sets x all presentations/offset kinds/normalisation/UBM-as, plus UBM update histories) on the real code vs the explicit-loop formula and the derivative identity",
         text="Every presentation of every (UBM, statistics, models) triple is scored and compared with the formula evaluated by explicit loops; zero for the UBM, linearity, additivity, zero-frame statistics, machine == array, MAP machine == its prior (with different own means and variances), UBMs whose variances/floors are changed between calls, integer-typed UBM means, and the central-difference derivative of the real log-likelihood are asserted.",
         note=TRUST),
    dict(id="C11", technique="bounded exhaustive enumeration (UBMs x subspaces x client factors x probe sets x {ISV,JFA}) on the real code vs reference posterior / linear score and pairwise entry-point equivalence",
         text="score() is compared with the frame-normalised linear score of the client mean with the UBM shifted by U x (x = posterior mean from the pooled probe, computed independently); list == pooled probe, re-scoring the same objects, score_using_array / enroll_using_array / fit_using_array (numpy and dask) against the statistics-level calls, estimate_ux == U estimate_x and ISVMachine.transform are asserted for every case.",
         note=TRUST),
]
CHECKS += [
    dict(id="C09", technique="bounded exhaustive enumeration (UBMs x labelled statistics incl. unsorted labels x ranks x initial subspaces x E/M pairs) on the real code, driven through the public per-phase steps, vs phase marginal likelihoods from the definition",
         text="Each JFA phase is stepped through the public e_step_*/m_step_*/finalize_* methods; after every pair the phase's marginal log-likelihood (latent integrated out, other subspaces and handed-over point estimates fixed) computed from the model definition must not decrease; per-class accumulated statistics, shapes and finiteness are asserted; fit(em_iterations=k) from a list, a bag and a bag on a serialising executor must equal the manual sequence.",
         note=TRUST),
    dict(id="C10", technique="bounded exhaustive enumeration (UBMs x (T, sigma) x statistics x dim_t x setter histories; training sets x seeds x update_sigma x floors x list/bag x iterations) on the real code vs the posterior-mean system and the EM-step definition",
         text="Every projection is compared with the solution of the posterior-mean system (zero vector for frame-less statistics), also after sigma is replaced and T rescaled in place on the same machine; every training iteration is compared with the EM step definition applied to the previous model, the marginal log-likelihood including the covariance terms must not decrease while no floor is active, covariances stay >= floor.",
         note=TRUST),
]
CHECKS += [
    dict(id="C14", technique="bounded exhaustive enumeration (integer data sets x class partitions x label maps x sample orders x input kinds x pinv) on the real code vs exact scatter matrices and the identities on the library's own output",
         text="For every full-rank configuration (rank decided exactly in rational arithmetic) WCCN and whitening are fitted; the projection must be lower-triangular with positive diagonal and equal the unique Cholesky factor computed from the exact scatter/covariance of the partition alone (so any dependence on label values or order shows), the transformed training data must have zero mean / identity covariance resp. within-class scatter / K = identity, for numpy, list and every enumerated Dask layout, with and without pinv.",
         note=TRUST),
]
CHECKS += [
    dict(id="C16", engine="bfs", technique="exhaustive enumeration of operation histories (all sequences up to the depth, state = history + global RNG state) and of all sample orders / class renamings, on the real code",
         text="Every sequence of up to 2 (thorough 3) history operations (re-seeding or drawing from NumPy's global generator, training any other estimator) is executed before each fit under test and the result must be bit-identical to the fit on the empty history; all n! sample orders and all K! class renamings must give the same model up to rounding for k-means/GMM (explicit start), ISV, JFA (list, bag, Dask array), WCCN and whitening.",
         note=TRUST),
]
CHECKS += [
    dict(id="C15", technique="bounded exhaustive enumeration of (configuration, affine map) pairs, both sides executed on the real code (metamorphic oracle); known finding K1 classified by the defective formula",
         text="Every configuration of seven families (GMM-ML, GMM-MAP, k-means, linear scoring, ISV, JFA, i-vector) is run on the original features and on a*x+b for 16 per-feature maps (negative, mixed 2^10/2^-10 scales, shifts up to 2^18; k-means also quarter turns, (x,y)->(x-y,x+y), uniform scalings) with parameters, floors, subspaces and statistics transformed accordingly; means/variances/weights/log-likelihoods/centroids/subspaces must transform and scores/factors/i-vectors must stay. Maps beyond the conditioning of raw-moment statistics are counted, not asserted.",
         note=TRUST),
]
_PENDING = "check not built yet in this round (planned, see DESIGN.md section 10); not claimed until it runs clean"
NOT_APPLICABLE = [dict(property_id="C%02d" % i, reason=_PENDING) for i in range(1, 21) if "C%02d" % i not in {c["id"] for c in CHECKS}]
