HOOK_COMMITS = []
TRUST = ("Trusted: CPython/NumPy/SciPy/Dask as installed, fractions/decimal, the short reference models under mc/oracle_*.py; "
         "nothing is claimed outside the enumerated alphabets (see evidence coverage and DESIGN.md section 3).")
CHECKS = [
    dict(id="C01", technique="bounded exhaustive enumeration (machines x samples x presentations) on the real code vs 60-digit Decimal mixture density",
         text="Every machine of the enumerated product (components, features, template rotations, weight compositions, four floor kinds) scores every sample of the coordinate alphabet - bulk, tails up to 2^20 and non-dyadic values - alone, inside the batch and inside every row composition of a Dask array; each value is compared with a 60-digit Decimal evaluation of the naive normalised density (which cannot underflow), per component and for the mixture, and D=1 machines are integrated on a grid. Exhaustive within the alphabets.",
         note=TRUST),
    dict(id="C02", technique="bounded exhaustive enumeration (machines x data sets x every composition / set partition of the rows) on the real code vs Decimal responsibilities",
         text="For every machine x data set the accumulated statistics are compared with moments computed from 60-digit Decimal responsibilities, and every composition of the rows (every set partition for n<=4) is accumulated block-wise and folded with +, += and reduce(iadd) and compared with the whole-set statistics, with operand purity, Dask layouts and the shape-mismatch refusal checked; exhaustive within the alphabets.",
         note=TRUST),
    dict(id="C06", technique="bounded exhaustive enumeration (data x K x initial centroids x caps x thresholds x chunkings) on the real code vs exact rational Lloyd reference",
         text="Every k-means fit of the enumerated product is executed on the implementation and compared, iteration by iteration, with an exact Fraction model of Lloyd's algorithm (centroids, reported criterion, independent distortion, stopping iteration). Exhaustive within the stated alphabets; this is the level the property needs because the defects it guards against (criterion scaled per chunk, off-by-one stop) are value- and configuration-dependent, not schedule-dependent.",
         note=TRUST),
    dict(id="C04", engine="sched", technique="stateless exploration of Dask task schedules (all linear extensions / deviation-bounded) x chunk layouts x shared|serialised executor on the real code",
         text="For every trainer configuration, every composition of the rows (and of the feature axis for k-means/GMM) and both executor models, the controlled scheduler enumerates the task orders of every graph the library submits (all linear extensions of the library tasks when few, else all schedules within the deviation bound) and every execution is compared with the in-memory training. Exhaustive within the stated bounds; schedule- and placement-dependent defects (missing copy-back, chunk-weighted reductions) cannot be reached by the suite's single default-scheduler run.",
         note=TRUST + " Scheduler model: tasks atomic, placement all-shared or all-serialised."),
    dict(id="C12", engine="sched", technique="stateless exploration of Dask task schedules (deviation-bounded) x all bag partitionings x all labelings x shared|serialised executor on the real code",
         text="ISV, JFA and i-vector training from a Dask bag is executed for every composition of the statistics into partitions (empty, single-element and class-mixing partitions included), every surjective labeling, both executor models and every task order within the deviation bound, and each execution is compared with in-memory list training; for the i-vector trainer the accumulator reaching every M-step is additionally checked to carry the total count exactly once, for 1..P partitions (both parities at every level of the pairwise tree).",
         note=TRUST + " Scheduler model: tasks atomic, placement all-shared or all-serialised."),
]
_PENDING = "check not built yet in this round (planned, see DESIGN.md section 10); not claimed until it runs clean"
NOT_APPLICABLE = [dict(property_id="C%02d" % i, reason=_PENDING) for i in range(1, 21) if "C%02d" % i not in {c["id"] for c in CHECKS}]
