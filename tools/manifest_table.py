HOOK_COMMITS = []
TRUST = ("Trusted: CPython/NumPy/SciPy/Dask as installed, fractions/decimal, the short reference models under mc/oracle_*.py; "
         "nothing is claimed outside the enumerated alphabets (see evidence coverage and DESIGN.md section 3).")
CHECKS = [
    dict(id="C06", technique="bounded exhaustive enumeration (data x K x initial centroids x caps x thresholds x chunkings) on the real code vs exact rational Lloyd reference",
         text="Every k-means fit of the enumerated product is executed on the implementation and compared, iteration by iteration, with an exact Fraction model of Lloyd's algorithm (centroids, reported criterion, independent distortion, stopping iteration). Exhaustive within the stated alphabets; this is the level the property needs because the defects it guards against (criterion scaled per chunk, off-by-one stop) are value- and configuration-dependent, not schedule-dependent.",
         note=TRUST),
]
_PENDING = "check not built yet in this round (planned, see DESIGN.md section 10); not claimed until it runs clean"
NOT_APPLICABLE = [dict(property_id="C%02d" % i, reason=_PENDING) for i in range(1, 21) if "C%02d" % i not in {c["id"] for c in CHECKS}]
