#!/usr/bin/env python3
"""Prints the prompt handed to an independent sub-agent that is asked to break one property (it gets nothing from /verif
except the property text)."""
import json, sys
pid = sys.argv[1]; wt = sys.argv[2]; n = sys.argv[3] if len(sys.argv) > 3 else "3"
hint = sys.argv[4] if len(sys.argv) > 4 else ""
p = [json.loads(l) for l in open('/verif/properties.jsonl') if json.loads(l)['id'] == pid][0]
print(f"""You are working in a scratch git worktree of the Python library bob.learn.em (bioidiap/bob.learn.em) at {wt}.
Work ONLY inside {wt}. Never read, list or write anything under /repo or /verif (they are out of bounds), and do not use git commands that touch other worktrees.
Environment: no network. Python is /venv/bin/python (numpy, scipy, dask, dask-ml, h5py, pytest-xdist installed). The library is imported from your worktree only if you set PYTHONPATH={wt}/src - always verify with:
  cd {wt} && PYTHONPATH={wt}/src /venv/bin/python -c "import bob.learn.em as m; print(m.__file__)"
Test suite: cd {wt} && PYTHONPATH={wt}/src /venv/bin/python -m pytest -q -p no:cacheprovider --no-cov -n 6 tests
On the unchanged tree exactly 46 tests pass and exactly these 5 fail for environment reasons (they must stay as they are): test_gmm_kmeans_parallel_init, test_gmm_kmeans_plusplus_init, test_kmeans_fit, test_kmeans_fit_init_pp, test_kmeans_parameters.

TASK. Produce {n} different realistic source changes ("mutations") to files under src/bob/learn/em/, each of which BREAKS the property below while the package still imports and the same 46 tests still pass. Do not edit tests.

PROPERTY {pid}: {p['title']}
{p['statement']}
It is meant to hold: {p['quantifier']['text']}.

Requirements for each mutation:
- Realistic: it should look like a plausible refactoring, optimisation, or well-meant bug fix gone wrong - not sabotage that ordinary use would expose at once.
- It must need something specific to manifest: a particular task order or interleaving, an executor that serialises task inputs/outputs, a particular chunking/partitioning, a multi-step sequence of public operations, an unusual input (tail values, zero counts, unsorted or non-contiguous labels, degenerate data, None settings ...), or two cooperating sites each of which looks fine alone. {hint}
- The {n} mutations must differ in mechanism and location.
For mutation i = 1..{n} create the directory {wt}/_mut/m<i>/ containing:
  patch.diff  - output of `git diff` relative to HEAD (applies with `git apply` at the worktree root; touches only files under src/)
  demo.py     - standalone script, run as `PYTHONPATH=<tree>/src /venv/bin/python demo.py`: prints PASS and exits 0 when the property holds (unchanged tree); prints FAIL plus a short explanation and exits 1 when the mutation is applied. Deterministic, under 60 s. When it uses dask, call dask.config.set(scheduler="sync") (or install its own scheduler via dask.config.set(scheduler=callable)) - dask bags otherwise default to multiprocessing, which fails here.
  meta.json   - {{"property": "{pid}", "summary": "...", "needs": "what specific circumstance is needed to make it manifest", "files": ["..."], "tests_run": "command you ran and its pass/fail counts with the patch applied"}}
Verify yourself for each mutation: (a) demo.py passes on the unchanged tree, (b) with the patch applied the full suite still has the same 46 passes and 5 failures, (c) demo.py fails with the patch applied. After each mutation restore the sources (git checkout -- src) so that the worktree ends clean except for _mut/.
Finish with a short summary (one paragraph per mutation). If a mutation idea turns out to break a test, drop it and find another.""")
