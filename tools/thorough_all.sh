#!/bin/bash
# runs inside a vp snapshot: thorough tier of every check against the snapshot of /repo
for i in $(seq -w 1 20); do
  s=$(date +%s)
  VERIF_REPO_SRC=$VP_RUN_REPO/src ./check C$i --tier thorough 2>&1 | grep "^C$i\|^VIOL\|NONDET\|counters" | cut -c1-400
  echo "  (C$i took $(( $(date +%s) - s )) s)"
done
