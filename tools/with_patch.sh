#!/bin/bash
# tools/with_patch.sh [-R] <patch.diff> -- <command...>
# Applies a patch to /repo's working tree, runs the command from /verif, always restores /repo afterwards.
REV=""
if [ "$1" = "-R" ]; then REV="-R"; shift; fi
P=$(readlink -f "$1"); shift; [ "$1" = "--" ] && shift
if [ -n "$(git -C /repo status --porcelain --untracked-files=no)" ]; then echo "/repo is dirty; refusing" >&2; exit 3; fi
if ! git -C /repo apply $REV "$P" 2>/dev/null; then
  # the patch was made against an earlier commit of /repo: fall back to a 3-way merge
  git -C /repo apply $REV --3way "$P" >/dev/null 2>&1 || { git -C /repo reset -q --hard HEAD; echo "patch does not apply" >&2; exit 3; }
  if grep -rq '^<<<<<<< ' /repo/src; then git -C /repo reset -q --hard HEAD; echo "patch conflicts with the current tree" >&2; exit 3; fi
fi
cd /verif && "$@"; rc=$?
git -C /repo reset -q --hard HEAD
exit $rc
