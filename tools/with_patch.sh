#!/bin/bash
# tools/with_patch.sh [-R] <patch.diff> -- <command...>
# Applies a patch to /repo's working tree, runs the command from /verif, always restores /repo afterwards.
REV=""
if [ "$1" = "-R" ]; then REV="-R"; shift; fi
P=$(readlink -f "$1"); shift; [ "$1" = "--" ] && shift
if [ -n "$(git -C /repo status --porcelain --untracked-files=no)" ]; then echo "/repo is dirty; refusing" >&2; exit 3; fi
git -C /repo apply $REV "$P" || { echo "patch does not apply" >&2; exit 3; }
cd /verif && "$@"; rc=$?
git -C /repo checkout -- . 
exit $rc
