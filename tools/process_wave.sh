#!/bin/bash
# tools/process_wave.sh <wave-number> <Cxx> [<Cxx>...]  - vets /tmp/wt<w>_<Cxx>/_mut/m{1,2,3}, stores them as seeded/<Cxx>_w<w>m<i>,
# runs the property's quick check (plus checks named in seeded/CHECKS.map) against each and removes the worktree.
W=$1; shift
cd /verif
for p in "$@"; do
  for i in 1 2 3; do
    [ -d /tmp/wt${W}_$p/_mut/m$i ] || { echo "no /tmp/wt${W}_$p/_mut/m$i"; continue; }
    tools/vet_seeded.sh /tmp/wt${W}_$p /tmp/wt${W}_$p/_mut/m$i ${p}_w${W}m$i | sed "s/^/${p}_w${W}m$i: /" | cut -c1-170
  done
  tools/run_seeded.sh "${p}_w${W}m*" | cut -c1-200
  git -C /repo worktree remove --force /tmp/wt${W}_$p 2>/dev/null
done
git -C /repo worktree prune
