#!/bin/bash
# Runs the repository's pinned suite (guard off) against a source tree and compares with BASELINE.json.
# usage: tools/baseline.sh [SRC_ROOT]   (default /repo). Exit 0 iff all 46 stable tests pass.
ROOT=${1:-/repo}
OUT=$(mktemp /tmp/baseline.XXXXXX.xml)
cd "$ROOT" || exit 2
env -u BOB_LEARN_EM_VERIF PYTHONPATH="$ROOT/src" /venv/bin/python -m pytest -q -p no:cacheprovider --no-cov -n 12 --timeout=900 --continue-on-collection-errors --junitxml="$OUT" tests >/dev/null 2>&1
/venv/bin/python - "$OUT" <<'P'
import sys, json, xml.etree.ElementTree as ET
base = json.load(open('/root/.vp/BASELINE.json'))
want = set(base['stable_pass'])
t = ET.parse(sys.argv[1]).getroot()
ok = set()
for tc in t.iter('testcase'):
    name = tc.get('classname') + '::' + tc.get('name')
    if not any(c.tag in ('failure', 'error', 'skipped') for c in tc):
        ok.add(name)
miss = sorted(want - ok)
print(f"baseline: {len(want & ok)}/{len(want)} stable tests pass; extra passing: {sorted(ok - want)}")
for m in miss: print("  MISSING", m)
sys.exit(1 if miss else 0)
P
rc=$?
rm -f "$OUT"
exit $rc
