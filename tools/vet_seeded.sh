#!/bin/bash
# tools/vet_seeded.sh <worktree> <mutation-dir> <seeded-id> <check-id> [<check-id>...]
# Confirms an independently produced property-breaking change (demo passes clean, fails patched; suite still green),
# stores it under seeded/<id>/ and runs the named quick checks against it (patch applied to /repo, always reverted).
WT=$1; MD=$2; ID=$3; shift 3
OUT=/verif/seeded/$ID; mkdir -p $OUT
cd $WT || exit 2
git checkout -q -- src 2>/dev/null
PYTHONPATH=$WT/src /venv/bin/python $MD/demo.py > $OUT/demo_clean.log 2>&1; rc_clean=$?
git apply $MD/patch.diff || { echo "patch does not apply in worktree"; exit 2; }
/verif/tools/baseline.sh $WT > $OUT/suite_patched.log 2>&1; rc_suite=$?
PYTHONPATH=$WT/src /venv/bin/python $MD/demo.py > $OUT/demo_patched.log 2>&1; rc_patched=$?
git checkout -q -- src
cp $MD/patch.diff $OUT/patch.diff; cp $MD/demo.py $OUT/demo.py; cp $MD/meta.json $OUT/agent_meta.json 2>/dev/null
echo "demo clean rc=$rc_clean (want 0); suite patched rc=$rc_suite (want 0): $(head -1 $OUT/suite_patched.log); demo patched rc=$rc_patched (want 1)"
DET=""
for chk in "$@"; do
  /verif/tools/with_patch.sh $OUT/patch.diff -- ./check $chk --tier quick > $OUT/check_$chk.log 2>&1; rc=$?
  nv=$(grep -c "^VIOLATION" $OUT/check_$chk.log)
  echo "  check $chk: rc=$rc violations_lines=$nv :: $(grep -m1 -A2 '^VIOLATION' $OUT/check_$chk.log | tail -2 | tr '\n' ' ' | cut -c1-260)"
  DET="$DET $chk:rc=$rc"
done
/venv/bin/python - "$OUT" "$ID" "$rc_clean" "$rc_suite" "$rc_patched" "$DET" <<'P'
import json, sys, os
out, sid, rc_clean, rc_suite, rc_patched, det = sys.argv[1:7]
am = {}
try: am = json.load(open(os.path.join(out, 'agent_meta.json')))
except Exception: pass
meta = dict(id=sid, property=am.get('property'), summary=am.get('summary'), needs=am.get('needs'), files=am.get('files'),
            confirmed=dict(demo_on_unchanged_tree_rc=int(rc_clean), suite_with_patch_rc=int(rc_suite), demo_with_patch_rc=int(rc_patched)),
            what_i_ran=["demo.py on the clean worktree", "tools/baseline.sh <worktree> with the patch applied (46 stable tests must pass)", "demo.py with the patch applied",
                        "tools/with_patch.sh patch.diff -- ./check <id> --tier quick for: " + det.strip()],
            detection=det.strip().split())
json.dump(meta, open(os.path.join(out, 'meta.json'), 'w'), indent=1)
P
