#!/usr/bin/env python3
"""Rebuilds seeded/RESULTS.md from the most recent check logs under seeded/<id>/check_<Cxx>.log (each written by
tools/run_seeded.sh, which applies the patch to /repo, runs the quick check and restores /repo)."""
import glob, os, re, datetime
rows = []
for d in sorted(glob.glob('/verif/seeded/*/')):
    sid = os.path.basename(d.rstrip('/'))
    for log in sorted(glob.glob(d + 'check_*.log')):
        chk = os.path.basename(log)[6:-4]
        txt = open(log, errors='replace').read()
        nv = len(re.findall(r'^VIOLATION', txt, flags=re.M))
        m = re.search(r'^VIOLATION.*\n(.*)', txt, flags=re.M)
        first = (m.group(1).strip().replace('|', '/')[:150]) if m else ''
        summary = re.search(r'^%s tier=.*$' % chk, txt, flags=re.M)
        ok = nv > 0
        rows.append(f"| {sid} | {chk} | {'DETECTED' if ok else 'not reported'} | {nv} | {first} |")
own = {}
for r in rows:
    sid, chk, res = [x.strip() for x in r.split('|')[1:4]]
    if chk == sid.split('_')[0]:
        own[sid] = res
n_own = sum(1 for v in own.values() if v == 'DETECTED')
with open('/verif/seeded/RESULTS.md', 'w') as f:
    f.write("# Seeded property-breaking changes vs quick checks\n\n")
    f.write(f"Rebuilt by tools/results_from_logs.py on {datetime.date.today()} from the latest run of tools/run_seeded.sh per change. "
            "Every change was produced by an independent sub-agent from the property text only, confirmed (demo passes clean / fails patched, "
            "46 baseline tests still pass) and is stored with its demonstration under seeded/<id>/ (`_w2` = second wave).\n\n")
    f.write(f"**{n_own} of {len(own)} changes are reported by the quick check of their own property.** Rows for other checks show which neighbouring checks also see the change "
            "('not reported' there is expected: the change does not break that check's property on its alphabet).\n\n")
    f.write("| seeded change | check | result | VIOLATION lines | first report |\n|---|---|---|---|---|\n")
    f.write("\n".join(rows) + "\n")
print(n_own, len(own), [k for k, v in own.items() if v != 'DETECTED'])
