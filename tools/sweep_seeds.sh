#!/bin/bash
# tools/sweep_seeds.sh [seeds...] - every quick check under each VERIF_SEED on the unchanged tree; prints one line per (check, seed)
cd /verif
SEEDS=${@:-0 1 2 3 4 5 6 7 8}
for s in $SEEDS; do
  for i in $(seq -w 1 20); do
    out=$(VERIF_SEED=$s ./check C$i --tier quick 2>&1); rc=$?
    line=$(echo "$out" | grep "^C$i tier" | cut -c1-200)
    nk=$(echo "$out" | grep -c "^KNOWN-FINDING")
    echo "seed=$s C$i rc=$rc known_lines=$nk :: $line"
    if [ $rc -ne 0 ]; then echo "$out" | grep -A2 "^VIOLATION\|NONDETERMINISM" | head -12 | cut -c1-400; fi
  done
done
