#!/usr/bin/env python3
"""Regenerates MANIFEST.json from the table below (one entry per built property module) and validates it."""
import json, os, subprocess, sys
ROOT = os.path.dirname(os.path.dirname(os.path.abspath(__file__)))
sys.path.insert(0, ROOT)
from tools.manifest_table import CHECKS, NOT_APPLICABLE, HOOK_COMMITS

BASE = json.load(open('/root/.vp/BASELINE.json'))
man = {
    "version": 1,
    "setup_cmd": "true",
    "hooks": {
        "guard": "BOB_LEARN_EM_VERIF",
        "enable": "none needed: every check drives the public API of /repo/src (PYTHONPATH=/repo/src); the guard variable is exported by ./check but no source line reads it",
        "baseline_off_cmd": "cd /repo && env -u BOB_LEARN_EM_VERIF /venv/bin/python -m pytest -ra -q -p no:cacheprovider --timeout=900 --continue-on-collection-errors",
        "source_commits": HOOK_COMMITS,
        "add_only": True,
    },
    "engines": [
        {"name": "enum", "path": "mc/runner.py", "serves_properties": [c["id"] for c in CHECKS],
         "kind_free_text": "indexed complete enumeration of bounded Cartesian alphabets, every case executed on the real library in forked workers and compared with an independent reference model"},
        {"name": "sched", "path": "mc/sched.py", "serves_properties": ["C04", "C12"],
         "kind_free_text": "controlled Dask scheduler (shared / fully serialised executor) + stateless deviation-bounded DFS over task orders with prefix replay"},
        {"name": "bfs", "path": "mc/bfs.py", "serves_properties": ["C16", "C17", "C18", "C19"],
         "kind_free_text": "explicit-state breadth-first search over public-operation histories on live objects, states de-duplicated by full object state"},
    ],
    "checks": [],
    "not_applicable": NOT_APPLICABLE,
    "notes": "All checks: ./check <id> --tier quick|thorough, exit 0/1, evidence/<id>.json rewritten on every run. known_findings.json lists recorded findings (known) and repaired defects (fixed).",
}
for c in CHECKS:
    man["checks"].append({
        "property_id": c["id"],
        "quick_cmd": f"./check {c['id']} --tier quick",
        "thorough_cmd": f"./check {c['id']} --tier thorough",
        "evidence_file": f"/verif/evidence/{c['id']}.json",
        "replay_cmd_template": f"./check {c['id']} --replay {{path}}",
        "engine": c.get("engine", "enum"),
        "level_claimed": {"category": "model_checking", "text": c["text"], "design_ref": c.get("ref", "DESIGN.md section 4")},
        "level_note": c["note"],
        "technique": c["technique"],
    })
json.dump(man, open(os.path.join(ROOT, "MANIFEST.json"), "w"), indent=1)
r = subprocess.run(["python3-vt", "-c", "import json,jsonschema;jsonschema.validate(json.load(open('%s/MANIFEST.json')),json.load(open('/root/.vp/MANIFEST.schema.json')));print('MANIFEST valid,',len(json.load(open('%s/MANIFEST.json'))['checks']),'checks')" % (ROOT, ROOT)])
sys.exit(r.returncode)
