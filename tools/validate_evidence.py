#!/usr/bin/env python3-vt
import json, sys, glob, jsonschema
sch = json.load(open('/root/.vp/EVIDENCE.schema.json'))
bad = 0
for p in sorted(glob.glob('/verif/evidence/*.json')):
    try:
        jsonschema.validate(json.load(open(p)), sch); print('valid', p)
    except Exception as e:
        bad += 1; print('INVALID', p, str(e)[:300])
sys.exit(1 if bad else 0)
