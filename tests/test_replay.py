"""Plain unit test: replays recorded counterexamples without the enumerator.

tests/fixed_defect_replays/*.json were recorded by the checks on the tree *before* the corresponding fix commit in /repo
(see DESIGN.md section 6); on the current tree every one of them must pass. Files under replays/ (written by a check
when it reports a violation) are replayed too and must fail for as long as the violation is present.

Run:  cd /verif && PYTHONPATH=/repo/src:/verif /venv/bin/python -m pytest -q -p no:cacheprovider --no-cov tests/test_replay.py
"""
import glob
import importlib
import json
import os

import pytest

ROOT = os.path.dirname(os.path.dirname(os.path.abspath(__file__)))
FIXED = sorted(glob.glob(os.path.join(ROOT, "tests", "fixed_defect_replays", "*.json")))


def _run(path):
    from mc import runner

    doc = json.load(open(path))
    mod = importlib.import_module("props." + doc["property"].lower())
    res = runner._run_one(mod, doc["case"])
    findings = runner.load_findings()
    return [v for v in res["viol"] if not runner.match_finding(findings, doc["property"], v)], res["checks"]


@pytest.mark.parametrize("path", FIXED, ids=[os.path.basename(p) for p in FIXED])
def test_fixed_defect_stays_fixed(path):
    bad, checks = _run(path)
    assert checks > 0
    assert not bad, bad[0]["msg"]
