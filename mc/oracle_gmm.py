"""Reference model of a diagonal-covariance GMM, written from the definitions (Bishop 9.2 / Reynolds 2000) and
independent of bob.learn.em's code paths.

* Decimal (60 digits, exponent range 1e15): per-component weighted log density and mixture log density. In this
  arithmetic nothing underflows, so the naive formula is the oracle for tail samples.
* float64: vectorised formulas (scipy logsumexp) for bulk use by the training properties, plus ML / MAP M-step
  definitions.
"""
import decimal
import math
from decimal import Decimal as Dc

import numpy as np
from scipy.special import logsumexp

CTX = decimal.Context(prec=60, Emin=-(10**15), Emax=10**15)
_LN2PI = None


def _ln2pi():
    global _LN2PI
    if _LN2PI is None:
        # pi to 60 digits
        pi = Dc("3.14159265358979323846264338327950288419716939937510582097494459")
        _LN2PI = CTX.ln(CTX.multiply(Dc(2), pi))
    return _LN2PI


def dec_lwl(x, w, mu, var):
    """x (D,), w (C,), mu/var (C,D) -> list of C Decimals: ln w_c + ln N(x; mu_c, diag var_c)."""
    out = []
    for c in range(len(w)):
        if float(w[c]) == 0.0:
            out.append(Dc("-Infinity"))  # a pruned component contributes nothing
            continue
        acc = CTX.ln(Dc(float(w[c])))
        for d in range(len(x)):
            v = Dc(float(var[c][d]))
            diff = CTX.subtract(Dc(float(x[d])), Dc(float(mu[c][d])))
            q = CTX.divide(CTX.multiply(diff, diff), v)
            acc = CTX.subtract(acc, CTX.divide(CTX.add(CTX.add(_ln2pi(), CTX.ln(v)), q), Dc(2)))
        out.append(acc)
    return out


def dec_ll(lwl):
    """ln sum_c exp(lwl_c), exactly (to 60 digits)."""
    m = max(lwl)
    s = Dc(0)
    for l in lwl:
        if l == Dc("-Infinity"):
            continue
        s = CTX.add(s, CTX.exp(CTX.subtract(l, m)))
    return CTX.add(m, CTX.ln(s))


def dec_resp(lwl):
    tot = dec_ll(lwl)
    return [Dc(0) if l == Dc("-Infinity") else CTX.exp(CTX.subtract(l, tot)) for l in lwl], tot


# ---------------------------------------------------------------------------------------------- float64 definitions
def lwl(X, w, mu, var):
    """(C, n) weighted log densities."""
    X = np.atleast_2d(np.asarray(X, dtype=float))
    w, mu, var = np.asarray(w, float), np.asarray(mu, float), np.asarray(var, float)
    C, D = mu.shape
    out = np.empty((C, X.shape[0]))
    for c in range(C):
        q = ((X - mu[c]) ** 2 / var[c]).sum(axis=1)
        out[c] = math.log(w[c]) if w[c] > 0 else -np.inf
        out[c] = out[c] - 0.5 * (D * math.log(2 * math.pi) + np.log(var[c]).sum() + q)
    return out


def ll(X, w, mu, var):
    return logsumexp(lwl(X, w, mu, var), axis=0)


def stats(X, w, mu, var):
    """dict(t, n (C,), px (C,D), pxx (C,D), ll) - responsibility weighted moments by the definition."""
    X = np.atleast_2d(np.asarray(X, dtype=float))
    L = lwl(X, w, mu, var)
    tot = logsumexp(L, axis=0)
    R = np.exp(L - tot[None, :])  # (C, n)
    return dict(t=X.shape[0], n=R.sum(axis=1), px=R @ X, pxx=R @ (X * X), ll=float(tot.sum()), resp=R)


def ml_mstep(st, w, mu, var, sw, floor_n, var_floor):
    """One ML M-step by the definition: argmax of the expected complete-data log-likelihood over the switched-on
    parameter groups. sw = (means, variances, weights). Returns (w, mu, var, info)."""
    um, uv, uw = sw
    n = np.maximum(st["n"], floor_n)
    starved = (st["n"] < floor_n)[:, None]  # no data: mean and variance are not estimable and stay where they are
    count_floor_active = bool(np.any(starved))
    w2 = n / st["t"] if uw else np.array(w, float)
    mu2 = np.where(starved, np.array(mu, float), st["px"] / n[:, None]) if um else np.array(mu, float)
    if uv:
        # sum_i r_ic (x_i - mu_c)^2 / n_c with the *current* (possibly just updated) mean
        raw = (st["pxx"] - 2 * mu2 * st["px"] + mu2 * mu2 * st["n"][:, None]) / n[:, None]
        raw = np.where(starved, np.array(var, float), raw)
        var2 = np.maximum(raw, var_floor)
        floor_active = bool(np.any(raw < var_floor))
    else:
        var2 = np.array(var, float)
        floor_active = False
    return w2, mu2, var2, dict(var_floor_active=floor_active, count_floor_active=count_floor_active)


def map_mstep(st, prior, cur, sw, relevance, alpha_fixed, floor_n, var_floor, unsquared_prior_mean=False):
    """One MAP (Reynolds) M-step by the definition in property C05. prior/cur = (w, mu, var). If
    unsquared_prior_mean is set the *defective* variance formula (prior var + prior mean) is evaluated instead - used
    only to classify known finding K1."""
    um, uv, uw = sw
    pw, pmu, pvar = [np.asarray(a, float) for a in prior]
    w, mu, var = [np.array(a, float) for a in cur]
    n = st["n"]
    if relevance is not None:
        a = n / (n + relevance)
    else:
        a = np.broadcast_to(np.asarray(alpha_fixed, float), (len(n),)).copy()  # scalar ratio or one ratio per component
    evid = n >= floor_n
    if uw:
        w = a * (n / st["t"]) + (1 - a) * pw
        w = w / w.sum()
    if um:
        ex = st["px"] / np.where(evid, n, 1.0)[:, None]
        mu = np.where(evid[:, None], a[:, None] * ex + (1 - a[:, None]) * pmu, pmu)
    if uv:
        ex2 = st["pxx"] / np.where(evid, n, 1.0)[:, None]
        second = pvar + (pmu if unsquared_prior_mean else pmu * pmu)
        raw = np.where(evid[:, None], a[:, None] * ex2 + (1 - a[:, None]) * second - mu * mu, second - mu * mu)
        var = np.maximum(raw, var_floor)
    return w, mu, var
