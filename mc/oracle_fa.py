"""Reference models for linear scoring, ISV/JFA latent-factor estimation, JFA phase likelihoods and i-vectors.

Written from the model definitions (mean supervector o_h = m + V y + U x_h + D z with standard-normal priors and the
UBM's diagonal covariances; total-variability model mean_c = m_c + T_c w), as dense linear algebra on small
problems. Shares no code with bob.learn.em.
"""
import numpy as np


# ------------------------------------------------------------------------------------------------ linear scoring (C08)
def linear_score(model_means, ubm_means, ubm_vars, N, F, T, offset=None, normalise=False):
    """One model (C,D) against one statistics object: sum_c (mu_c - m_c)' diag(var_c)^-1 (F_c - N_c (m_c + off_c))."""
    C, D = ubm_means.shape
    tot = 0.0
    for c in range(C):
        for d in range(D):
            off = 0.0 if offset is None else offset[c][d]
            tot += (model_means[c][d] - ubm_means[c][d]) / ubm_vars[c][d] * (F[c][d] - N[c] * (ubm_means[c][d] + off))
    if normalise:
        tot = 0.0 if T == 0 else tot / T
    return tot


# ------------------------------------------------------------------------------------ joint posterior of y, x_h, z (C07)
class Joint:
    """Quadratic form of the joint log-posterior of theta = (y, x_1..x_H, z) given enrolment statistics."""

    def __init__(self, m, var, U, V, Dv, stats):
        self.m = np.asarray(m, float).ravel()
        self.var = np.asarray(var, float).ravel()
        CD = self.m.size
        self.D = self.m.size // (np.asarray(stats[0][0]).size)
        self.U = np.asarray(U, float).reshape(CD, -1)
        self.V = None if V is None else np.asarray(V, float).reshape(CD, -1)
        self.Dv = np.asarray(Dv, float).ravel()
        self.rU = self.U.shape[1]
        self.rV = 0 if self.V is None else self.V.shape[1]
        self.H = len(stats)
        self.n = [np.repeat(np.asarray(N, float), self.D) for N, F in stats]
        self.f = [np.asarray(F, float).ravel() - n * self.m for (N, F), n in zip(stats, self.n)]
        dim = self.rV + self.H * self.rU + CD
        self.dim = dim
        P = np.eye(dim)
        b = np.zeros(dim)
        for h in range(self.H):
            A = self._A(h)
            P += A.T @ (A * (self.n[h] / self.var)[:, None])
            b += A.T @ (self.f[h] / self.var)
        self.P, self.b = P, b

    def _A(self, h):
        CD = self.m.size
        A = np.zeros((CD, self.dim))
        if self.rV:
            A[:, : self.rV] = self.V
        o = self.rV + h * self.rU
        A[:, o : o + self.rU] = self.U
        A[:, self.rV + self.H * self.rU :] = np.diag(self.Dv)
        return A

    def blocks(self):
        bl = []
        if self.rV:
            bl.append(("y", list(range(self.rV))))
        xs = []
        for h in range(self.H):
            o = self.rV + h * self.rU
            xs += list(range(o, o + self.rU))
        bl.append(("x", xs))
        bl.append(("z", list(range(self.rV + self.H * self.rU, self.dim))))
        return bl

    def J(self, theta):
        return float(-0.5 * theta @ self.P @ theta + self.b @ theta)

    def mode(self):
        return np.linalg.solve(self.P, self.b)

    def sweep(self, theta):
        """One enrolment iteration: y, then all x_h, then z, each set to its most probable value given the others."""
        theta = theta.copy()
        for _, idx in self.blocks():
            rest = [i for i in range(self.dim) if i not in set(idx)]
            rhs = self.b[idx] - self.P[np.ix_(idx, rest)] @ theta[rest]
            theta[idx] = np.linalg.solve(self.P[np.ix_(idx, idx)], rhs)
        return theta

    def split(self, theta):
        y = theta[: self.rV]
        z = theta[self.rV + self.H * self.rU :]
        return y, z


def posterior_x(m, var, U, N, F):
    """Posterior mean of the channel factor given pooled statistics under mean = m + U x."""
    m, var = np.asarray(m, float).ravel(), np.asarray(var, float).ravel()
    D = m.size // np.asarray(N).size
    U = np.asarray(U, float).reshape(m.size, -1)
    n = np.repeat(np.asarray(N, float), D)
    L = np.eye(U.shape[1]) + U.T @ (U * (n / var)[:, None])
    return np.linalg.solve(L, U.T @ ((np.asarray(F, float).ravel() - n * m) / var))


# ------------------------------------------------------------------------------------------- JFA phase likelihoods (C09)
def fa_marginal(W, var, n, f):
    """Marginal log-likelihood (up to a constant independent of W) of statistics (n, f = F - n*mean) under
    offset = W y, y ~ N(0, I): 1/2 b' L^-1 b - 1/2 ln|L|, L = I + W' diag(n/var) W, b = W' f/var."""
    L = np.eye(W.shape[1]) + W.T @ (W * (n / var)[:, None])
    b = W.T @ (f / var)
    sign, logdet = np.linalg.slogdet(L)
    return 0.5 * float(b @ np.linalg.solve(L, b)) - 0.5 * float(logdet)


def diag_marginal(Dv, var, n, f):
    L = 1.0 + Dv * Dv * n / var
    b = Dv * f / var
    return float(0.5 * np.sum(b * b / L) - 0.5 * np.sum(np.log(L)))


# ---------------------------------------------------------------------------------------------------- i-vectors (C10)
def ivector(ubm_means, T, sigma, N, F):
    C, D = ubm_means.shape
    t = T.shape[-1]
    L = np.eye(t)
    b = np.zeros(t)
    for c in range(C):
        Tc = T[c]  # (D, t)
        L += N[c] * Tc.T @ (Tc / sigma[c][:, None])
        b += Tc.T @ ((F[c] - N[c] * ubm_means[c]) / sigma[c])
    return np.linalg.solve(L, b), L, b


def ivector_loglik(ubm_means, T, sigma, N, F, S):
    """Marginal log-likelihood of one statistics object under the total-variability model, including the covariance
    terms (constant -1/2 N D ln 2pi dropped)."""
    w, L, b = ivector(ubm_means, T, sigma, N, F)
    C, D = ubm_means.shape
    tot = 0.5 * float(b @ np.linalg.solve(L, b)) - 0.5 * float(np.linalg.slogdet(L)[1])
    for c in range(C):
        Sc = S[c] - 2 * F[c] * ubm_means[c] + N[c] * ubm_means[c] ** 2
        tot += -0.5 * N[c] * float(np.sum(np.log(sigma[c]))) - 0.5 * float(np.sum(Sc / sigma[c]))
    return tot
