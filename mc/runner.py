"""Check runner: enumerates the complete, deterministic case list of one property module, executes every case
against the real library in forked workers, classifies failed assertions against known_findings.json, writes replay
files and the evidence file.

Property module interface (props/cXX.py):
    PROPERTY = "Cxx"
    RULE = "...how cases are enumerated, what makes one non-trivial..."
    ASSUMPTIONS = [...]
    def cases(tier, seed) -> list of JSON-serialisable dicts (complete enumeration of the bounded space, simplest first)
    def run_case(case) -> dict(viol=[{sub, tags, msg, got, want}], checks=int, states=int, transitions=int,
                               traces=int, nontrivial=bool, sig=str, counters={name: int})
"""
import argparse
import importlib
import json
import multiprocessing as mp
import os
import sys
import time
import traceback

ROOT = os.path.dirname(os.path.dirname(os.path.abspath(__file__)))
_MOD = None
_TIER = "quick"


class CaseTimeout(BaseException):
    pass


def _on_alarm(signum, frame):
    raise CaseTimeout()


def _run_one(mod, case):
    """Executes one case. A case that does not terminate within the horizon (the library loops or blocks) is a failed
    case too: every harness needs an explicit horizon, a hang must be reported, not waited for."""
    import signal

    import numpy as np

    limit = float(os.environ.get("VERIF_CASE_TIMEOUT_S", "0")) or float(getattr(mod, "CASE_TIMEOUT_S", {}).get(_TIER, 60 if _TIER == "quick" else 1200))
    state = np.random.get_state()
    old = signal.signal(signal.SIGALRM, _on_alarm)
    signal.setitimer(signal.ITIMER_REAL, limit)
    try:
        with np.errstate(all="ignore"):
            res = mod.run_case(case)
    except CaseTimeout:
        res = dict(viol=[dict(sub="timeout", tags={}, msg=f"the case did not terminate within {limit:.0f} s (non-terminating or blocked library call)")], checks=1)
    except Exception:  # an uncaught exception is a failed case: either the library raised or the harness is wrong
        res = dict(
            viol=[dict(sub="crash", tags={}, msg=traceback.format_exc()[-1500:])],
            checks=1,
        )
    finally:
        signal.setitimer(signal.ITIMER_REAL, 0)
        signal.signal(signal.SIGALRM, old)
        np.random.set_state(state)
    res.setdefault("viol", [])
    res.setdefault("checks", 0)
    res.setdefault("states", 1)
    res.setdefault("transitions", 1)
    res.setdefault("traces", 1)
    res.setdefault("nontrivial", True)
    res.setdefault("sig", None)
    res.setdefault("counters", {})
    return res


_ABORT = mp.Value("i", 0)  # number of cases that ran into the horizon, shared with the forked workers


def _work(chunk):
    lo, cases = chunk
    out = []
    for i, case in enumerate(cases):
        if _ABORT.value >= 3:
            # the library hangs on several cases: stop exploring, the run is reported as capped (not exhaustive)
            out.append(dict(index=lo + i, skipped=True))
            continue
        r = _run_one(_MOD, case)
        if any(v.get("sub") == "timeout" for v in r["viol"]):
            with _ABORT.get_lock():
                _ABORT.value += 1
        r["index"] = lo + i
        out.append(r)
    return out


def load_findings():
    path = os.path.join(ROOT, "known_findings.json")
    if not os.path.exists(path):
        return []
    with open(path) as f:
        return json.load(f)["findings"]


def match_finding(findings, pid, rec):
    for e in findings:
        if e.get("status") != "known" or e.get("property") != pid:
            continue
        if e.get("subcheck") != rec.get("sub"):
            continue
        tags = rec.get("tags") or {}
        if all(tags.get(k) == v for k, v in (e.get("tags") or {}).items()):
            return e
    return None


def main(argv=None):
    global _MOD, _TIER
    ap = argparse.ArgumentParser()
    ap.add_argument("prop")
    ap.add_argument("--tier", default=os.environ.get("VERIF_TIER", "quick"), choices=["quick", "thorough"])
    ap.add_argument("--replay", default=None)
    ap.add_argument("--jobs", type=int, default=int(os.environ.get("VERIF_JOBS", "0")) or min(16, os.cpu_count() or 1))
    ap.add_argument("--limit", type=int, default=0, help="debug: only the first N cases (never used by MANIFEST)")
    args = ap.parse_args(argv)
    pid = args.prop.upper()
    _TIER = args.tier
    try:
        seed = int(os.environ.get("VERIF_SEED", "0"))
    except ValueError:
        seed = 0
    import logging

    logging.disable(logging.CRITICAL)  # the library logs through `logging`; keep check output to verdict lines
    from mc import tol

    mod = importlib.import_module("props." + pid.lower())
    _MOD = mod
    findings = load_findings()

    if args.replay:
        with open(args.replay) as f:
            doc = json.load(f)
        res = _run_one(mod, doc["case"])
        bad = 0
        for rec in res["viol"]:
            e = match_finding(findings, pid, rec)
            if e:
                print(f"KNOWN-FINDING: property={pid} {e['id']}: {e['text']}")
            else:
                bad += 1
                print(f"VIOLATION property={pid} replay={args.replay}")
                print("  sub=%s tags=%s\n  %s" % (rec.get("sub"), json.dumps(rec.get("tags")), rec.get("msg")))
        if not res["viol"]:
            print(f"replay: property {pid} holds on this case ({res['checks']} assertions)")
        return 1 if bad else 0

    t0 = time.time()
    cases = list(mod.cases(args.tier, seed))
    if args.limit:
        cases = cases[: args.limit]
    n = len(cases)
    budget = float(os.environ.get("VERIF_BUDGET_S", "0")) or getattr(mod, "BUDGET", {}).get(
        args.tier, 600 if args.tier == "quick" else 6 * 3600
    )
    jobs = max(1, args.jobs)
    csize = max(1, min(getattr(mod, "CHUNK", 64), (n + jobs * 4 - 1) // (jobs * 4)))
    chunks = [(lo, cases[lo : lo + csize]) for lo in range(0, n, csize)]
    results = []
    capped = False
    if jobs == 1 or n <= 2:
        for ch in chunks:
            results.extend(_work(ch))
            if time.time() - t0 > budget:
                capped = True
                break
    else:
        ctx = mp.get_context("fork")
        pool = ctx.Pool(jobs)
        try:
            for out in pool.imap(_work, chunks):
                results.extend(out)
                if time.time() - t0 > budget:
                    capped = True
                    break
        finally:
            pool.terminate()
            pool.join()
    if any(r.get("skipped") for r in results):
        capped = True  # several cases ran into the horizon; the remaining ones were not executed
        results = [r for r in results if not r.get("skipped")]
    done = len(results)

    agg = dict(checks=0, states=0, transitions=0, traces=0)
    counters = {}
    sigs = set()
    nontrivial_unsigged = 0
    viols = []
    for r in results:
        for k in agg:
            agg[k] += int(r[k])
        for k, v in r["counters"].items():
            counters[k] = counters.get(k, 0) + int(v)
        if r["nontrivial"]:
            if r["sig"] is None:
                nontrivial_unsigged += 1
            else:
                sigs.add(r["sig"])
        for rec in r["viol"]:
            viols.append((r["index"], rec))

    known_hits = {}
    unknown = []
    for idx, rec in viols:
        e = match_finding(findings, pid, rec)
        if e:
            known_hits.setdefault(e["id"], [e, 0])[1] += 1
        else:
            unknown.append((idx, rec))

    # confirm each unknown violation by re-executing its case from the JSON description in this process
    confirmed = []
    flaky = []
    seen_idx = set()
    rdir = os.path.join(ROOT, "replays", pid)
    for idx, rec in unknown:
        if idx in seen_idx:
            continue
        seen_idx.add(idx)
        if len(confirmed) >= 25:
            continue
        case = json.loads(json.dumps(tol.jsonable(cases[idx])))
        if rec.get("sub") == "timeout" and any(r.get("sub") == "timeout" for _, r, _ in confirmed):
            again = dict(viol=[rec])  # one hang has already been reproduced in this process; do not wait for every other one
        else:
            again = _run_one(mod, case)
        subs = {(v.get("sub")) for v in again["viol"] if not match_finding(findings, pid, v)}
        if rec.get("sub") in subs or subs:
            os.makedirs(rdir, exist_ok=True)
            path = os.path.join(rdir, f"case_{idx:07d}.json")
            recs = [tol.jsonable(v) for i2, v in unknown if i2 == idx]
            with open(path, "w") as f:
                json.dump(dict(property=pid, tier=args.tier, seed=seed, index=idx, case=case, records=recs), f, indent=1)
            confirmed.append((idx, rec, path))
        else:
            flaky.append((idx, rec))

    for eid, (e, cnt) in sorted(known_hits.items()):
        print(f"KNOWN-FINDING: property={pid} {eid}: {e['text']} [{cnt} case(s) in this run]")
    for idx, rec, path in confirmed:
        print(f"VIOLATION property={pid} replay={path}")
        msg = str(rec.get("msg", ""))
        msg = msg[:1200] if rec.get("sub") != "crash" else msg[-700:]
        print("  case#%d sub=%s tags=%s\n  %s" % (idx, rec.get("sub"), json.dumps(tol.jsonable(rec.get("tags"))), msg))
    for idx, rec in flaky:
        print(f"HARNESS-NONDETERMINISM property={pid} case#{idx} sub={rec.get('sub')}: failed in a worker, passed when re-executed")

    n_unknown_cases = len({i for i, _ in unknown})
    wall = time.time() - t0
    executed = {r["index"] for r in results}
    sample_idx = sorted({0, n // 3, (2 * n) // 3, n - 1} & executed) if done else []
    cov = dict(
        evaluations=done,
        distinct_nontrivial=len(sigs) + nontrivial_unsigged,
        rule=getattr(mod, "RULE", ""),
        samples=[tol.jsonable(cases[i]) for i in sample_idx][:4],
        states=agg["states"],
        transitions=agg["transitions"],
        traces_validated_against_impl=agg["traces"],
        assertions_evaluated=agg["checks"],
        exhaustive=(not capped) and done == n,
        cases_enumerated=n,
        cases_completed=done,
        time_cap_hit=capped,
        counters=counters,
        known_finding_cases={k: v[1] for k, v in known_hits.items()},
        jobs=jobs,
    )
    ev = dict(
        property_id=pid,
        tier=args.tier,
        seed=seed,
        level="model_checking",
        coverage=cov,
        assumptions=list(getattr(mod, "ASSUMPTIONS", [])),
        wall_s=round(wall, 3),
        violations=n_unknown_cases,
    )
    os.makedirs(os.path.join(ROOT, "evidence"), exist_ok=True)
    with open(os.path.join(ROOT, "evidence", pid + ".json"), "w") as f:
        json.dump(ev, f, indent=1)
        f.write("\n")
    print(
        f"{pid} tier={args.tier} seed={seed}: cases={done}/{n} states={agg['states']} transitions={agg['transitions']} "
        f"traces={agg['traces']} assertions={agg['checks']} distinct_nontrivial={cov['distinct_nontrivial']} "
        f"exhaustive={cov['exhaustive']} violations={n_unknown_cases} known={sum(v[1] for v in known_hits.values())} wall={wall:.1f}s"
    )
    if counters:
        print("  counters: " + ", ".join(f"{k}={v}" for k, v in sorted(counters.items())))
    if flaky and not confirmed:
        return 2
    return 1 if confirmed else 0


if __name__ == "__main__":
    sys.exit(main())
