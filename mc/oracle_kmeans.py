"""Exact reference model of Lloyd's algorithm in rational arithmetic (fractions.Fraction on the exact binary
values of the float inputs). Written from the textbook definition, shares no code with bob.learn.em."""
from fractions import Fraction as F


def to_frac(rows):
    return [tuple(F(float(v)) for v in r) for r in rows]


def sqdist(x, c):
    return sum((a - b) * (a - b) for a, b in zip(x, c))


def assign(X, C):
    """-> (labels, min distances, tie flag). Ties (two centroids at exactly the same minimal distance) are
    reported, the lowest index is used."""
    labels, dmin, tie = [], [], False
    for x in X:
        ds = [sqdist(x, c) for c in C]
        m = min(ds)
        if sum(1 for d in ds if d == m) > 1:
            tie = True
        labels.append(ds.index(m))
        dmin.append(m)
    return labels, dmin, tie


def lloyd_step(X, C):
    """One iteration. Returns dict(new=centroids, crit=mean min sq. distance to C (the centroids entering the
    iteration), counts, tie, empty). An empty cluster keeps its centroid."""
    labels, dmin, tie = assign(X, C)
    K, D, n = len(C), len(C[0]), len(X)
    counts = [0] * K
    sums = [[F(0)] * D for _ in range(K)]
    for x, l in zip(X, labels):
        counts[l] += 1
        for d in range(D):
            sums[l][d] += x[d]
    new = []
    for k in range(K):
        if counts[k]:
            new.append(tuple(s / counts[k] for s in sums[k]))
        else:
            new.append(tuple(C[k]))
    return dict(new=new, crit=sum(dmin) / n, counts=counts, tie=tie, empty=any(c == 0 for c in counts), labels=labels)


def distortion(X, C):
    _, dmin, _ = assign(X, C)
    return sum(dmin) / len(X)


def cluster_moments(X, C):
    """weights = fraction of samples per cluster, biased per-feature variances, exact."""
    labels, _, tie = assign(X, C)
    K, D, n = len(C), len(C[0]), len(X)
    w, var = [], []
    for k in range(K):
        pts = [x for x, l in zip(X, labels) if l == k]
        w.append(F(len(pts), n))
        if pts:
            m = [sum(p[d] for p in pts) / len(pts) for d in range(D)]
            var.append([sum((p[d] - m[d]) ** 2 for p in pts) / len(pts) for d in range(D)])
        else:
            var.append(None)
    return w, var, labels, tie


def fl(rows):
    return [[float(v) for v in r] for r in rows]


def lloyd_step_candidates(X, C, limit=64):
    """All results of one Lloyd iteration under every admissible tie-break (a sample exactly equidistant from several
    nearest centroids may be assigned to any of them). Returns a list of centroid lists; at most `limit` candidates."""
    import itertools

    options = []
    for x in X:
        ds = [sqdist(x, c) for c in C]
        m = min(ds)
        options.append([k for k, d in enumerate(ds) if d == m])
    n_comb = 1
    for o in options:
        n_comb *= len(o)
    if n_comb > limit:
        return None
    K, D = len(C), len(C[0])
    out = []
    for labels in itertools.product(*options):
        new = []
        for k in range(K):
            pts = [x for x, l in zip(X, labels) if l == k]
            new.append(tuple(sum(p[d] for p in pts) / len(pts) for d in range(D)) if pts else tuple(C[k]))
        out.append(new)
    return out
