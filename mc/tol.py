"""Tolerance policy (DESIGN.md section 1): tight enough to catch a wrong formula, loose enough that a
re-ordered sum never alarms."""
import numpy as np

EPS = 2.0 ** -52


def close(got, want, rtol=1e-9, scale=None, kappa=64.0, atol=0.0):
    """|got-want| <= rtol*max(1,|want|) + kappa*eps*scale + atol, element-wise, shapes must agree."""
    got = np.asarray(got, dtype=float)
    want = np.asarray(want, dtype=float)
    if got.shape != want.shape:
        return False
    if not (np.all(np.isfinite(got) == np.isfinite(want))):
        return False
    fin = np.isfinite(want)
    if not np.array_equal(got[~fin], want[~fin], equal_nan=True):
        return False
    sc = 0.0 if scale is None else np.asarray(scale, dtype=float)
    bound = rtol * np.maximum(1.0, np.abs(want)) + kappa * EPS * sc + atol
    return bool(np.all(np.abs(got - want)[fin] <= np.broadcast_to(bound, want.shape)[fin]))


def maxerr(got, want):
    got = np.asarray(got, dtype=float)
    want = np.asarray(want, dtype=float)
    if got.shape != want.shape:
        return float("inf")
    with np.errstate(all="ignore"):
        d = np.abs(got - want) / np.maximum(1.0, np.abs(want))
    d = np.where(np.isnan(d), np.inf, d)
    return float(d.max()) if d.size else 0.0


def geq(a, b, slack=1e-10):
    """a >= b up to slack*max(1,|b|) (monotone likelihood tests)."""
    return bool(a >= b - slack * max(1.0, abs(b)))


def jsonable(x):
    """Convert numpy containers to plain JSON values (floats via repr-exact Python floats)."""
    if isinstance(x, dict):
        return {str(k): jsonable(v) for k, v in x.items()}
    if isinstance(x, (list, tuple)):
        return [jsonable(v) for v in x]
    if isinstance(x, np.ndarray):
        return jsonable(x.tolist())
    if isinstance(x, (np.floating,)):
        return jsonable(float(x))
    if isinstance(x, (np.integer,)):
        return int(x)
    if isinstance(x, (np.bool_,)):
        return bool(x)
    if isinstance(x, float):
        if x != x:
            return "nan"
        if x in (float("inf"), float("-inf")):
            return "inf" if x > 0 else "-inf"
        return x
    if isinstance(x, (int, str, bool)) or x is None:
        return x
    return repr(x)
