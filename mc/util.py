"""Per-case assertion collector shared by all property modules."""
import collections
import itertools

import numpy as np

from . import tol


class Ctx:
    def __init__(self):
        self.viol = []
        self.checks = 0
        self.counters = collections.Counter()
        self.transitions = 0
        self.states = 0
        self.traces = 0

    def check(self, ok, sub, msg, tags=None):
        self.checks += 1
        if not ok:
            if len(self.viol) < 8:
                self.viol.append(dict(sub=sub, tags=dict(tags or {}), msg=msg() if callable(msg) else msg))
            else:
                self.counters["more_violations_suppressed"] += 1
        return bool(ok)

    def close(self, got, want, sub, what, tags=None, **kw):
        ok = tol.close(got, want, **kw)
        return self.check(
            ok,
            sub,
            lambda: "%s: got %s want %s (max rel err %.3g)"
            % (what, _short(got), _short(want), tol.maxerr(got, want)),
            tags,
        )

    def count(self, name, k=1):
        self.counters[name] += k

    def result(self, nontrivial=True, sig=None):
        return dict(
            viol=self.viol,
            checks=self.checks,
            states=max(1, self.states),
            transitions=max(1, self.transitions),
            traces=max(1, self.traces),
            nontrivial=bool(nontrivial),
            sig=sig,
            counters=dict(self.counters),
        )


def _short(a, n=400):
    s = np.array2string(np.asarray(a, dtype=float), precision=12, threshold=40).replace("\n", " ")
    return s if len(s) <= n else s[:n] + "..."


def compositions(n):
    """All 2^(n-1) compositions of n into positive parts, shortest (single block) first."""
    out = []
    for k in range(n):
        for cuts in itertools.combinations(range(1, n), k):
            b = (0,) + cuts + (n,)
            out.append(tuple(b[i + 1] - b[i] for i in range(len(b) - 1)))
    return out


def affine(seed):
    """VERIF_SEED selects one of nine affine re-labellings of the value alphabets (never random sampling)."""
    s = (1.0, 2.0, 0.5)[seed % 3]
    o = (0.0, 1.0, -3.0)[(seed // 3) % 3]
    return s, o


def sync_dask():
    import dask

    dask.config.set(scheduler="sync")
