"""Explicit-state breadth-first search over histories of public operations on live library objects.

State = the live object reached by a history. Key = BLAKE2 of a canonical serialisation of the *full* object state
(every attribute, arrays as dtype/shape/bytes, nested library objects recursively), so equal keys imply equal futures
and merging is sound by construction. Successors: deepcopy of the state object, then one real method call.
"""
import copy
import hashlib
import pickle
import types

import numpy as np


def canon(x, depth=0):
    if depth > 6:
        return "deep"
    if isinstance(x, np.ndarray):
        return ("nd", str(x.dtype), x.shape, x.tobytes())
    if isinstance(x, (np.generic,)):
        return ("ng", str(x.dtype), x.item() if not isinstance(x, np.floating) else float(x).hex())
    if isinstance(x, float):
        return ("f", x.hex())
    if isinstance(x, (int, str, bool, bytes)) or x is None:
        return x
    if isinstance(x, (list, tuple)):
        return (type(x).__name__,) + tuple(canon(v, depth + 1) for v in x)
    if isinstance(x, dict):
        return ("d",) + tuple((str(k), canon(v, depth + 1)) for k, v in sorted(x.items(), key=lambda kv: str(kv[0])))
    if isinstance(x, (types.FunctionType, types.BuiltinFunctionType, types.MethodType)):
        return ("fn", getattr(x, "__qualname__", repr(x)))
    if hasattr(x, "__dict__"):
        return ("obj", type(x).__name__, canon(vars(x), depth + 1))
    return ("repr", repr(x))


def key_of(obj, extra=None):
    h = hashlib.blake2b(digest_size=16)
    h.update(pickle.dumps((canon(obj), canon(extra)), protocol=4))
    return h.hexdigest()


class Search:
    def __init__(self):
        self.states = 0
        self.transitions = 0
        self.depth_done = 0
        self.capped = False
        self.sample_histories = []


def bfs(root, ops, apply_op, invariant, depth, key_fn=key_of, max_states=None, root_history=()):
    """apply_op(state_copy, op) -> new state object or None when the operation is not enabled in that state.
    invariant(state, history) is called on every state reached (also on revisits: the observation may differ by path
    only if the key is unsound, which the caller can then see)."""
    S = Search()
    seen = {key_fn(root)}
    frontier = [(root, list(root_history))]
    invariant(root, list(root_history))
    S.states = 1
    for d in range(depth):
        nxt = []
        for state, hist in frontier:
            for op in ops:
                s2 = copy.deepcopy(state)
                r = apply_op(s2, op)
                if r is None:
                    continue
                S.transitions += 1
                h2 = hist + [op]
                invariant(r, h2)
                k = key_fn(r)
                if k not in seen:
                    seen.add(k)
                    nxt.append((r, h2))
                    S.states += 1
                    if len(S.sample_histories) < 3 and len(h2) == depth:
                        S.sample_histories.append(h2)
                    if max_states is not None and S.states >= max_states:
                        S.capped = True
                        return S
        frontier = nxt
        S.depth_done = d + 1
        if not frontier:
            break
    return S
