"""Controlled Dask scheduler and stateless schedule explorer.

`Controller.get` is registered with dask.config.set(scheduler=ctl.get); the library's own dask.compute()/.persist()
calls reach it unchanged. Every task is executed atomically; whenever more than one *branchable* task is ready the
controller takes the next recorded choice (replay prefix) or choice 0 (canonical order) and records the number of
alternatives. Executor mode "shared" runs tasks on the caller's objects (threaded / synchronous semantics); mode
"serialised" round-trips the task, its dependency values and its result through cloudpickle (every task on its own
worker, as with dask.distributed).

Canonical order: ready tasks are sorted by a structural label (function name, block indices, labels of the
dependencies) which does not contain the random uuid4 parts of Dask key names, so a recorded choice sequence means the
same schedule in every run.
"""
import itertools
import operator
import re
import uuid as _uuid
from collections.abc import Mapping

import cloudpickle
import dask
from dask._task_spec import Alias, DataNode, Task, convert_legacy_graph
from dask.utils import key_split


class ScheduleDivergence(RuntimeError):
    pass


# Dask names non-pure delayed objects "<function>-<uuid4>". The uuid4 source is replaced by a counter so that
# (a) key names never depend on os.urandom and (b) structurally identical tasks (equal labels) can be ordered by
# creation order, which is program order and therefore the same in every run.
_MARK = 0x5CED5CED
_COUNTER = itertools.count(1)
_UUID_RE = re.compile(r"([0-9a-f]{8}-[0-9a-f]{4}-[0-9a-f]{4}-[0-9a-f]{4}-[0-9a-f]{12}|[0-9a-f]{32})$")


def _det_uuid4():
    return _uuid.UUID(int=(_MARK << 96) | next(_COUNTER), version=4)


_uuid.uuid4 = _det_uuid4


def _tiebreak(key):
    name = key[0] if isinstance(key, tuple) else key
    if isinstance(name, str):
        m = _UUID_RE.search(name)
        if m:
            v = int(m.group(1).replace("-", ""), 16)
            if v >> 96 == _MARK:
                return (0, v & ((1 << 48) - 1), "")
    return (1, 0, repr(key))


def _is_library(task):
    f = getattr(task, "func", None)
    if f is None:
        return False
    if f in (operator.add, operator.iadd):
        return True
    mod = getattr(f, "__module__", "") or ""
    if mod.startswith("bob."):
        return True
    owner = getattr(f, "__self__", None)
    if owner is not None and (type(owner).__module__ or "").startswith("bob."):
        return True
    # dask.delayed wraps the callable: Task(key, func=apply-like, args...) keeps the user function as func for plain calls
    return False


class Controller:
    def __init__(self, prefix=(), mode="shared", branch_all=False):
        self.prefix = list(prefix)
        self.mode = mode
        self.branch_all = branch_all
        self.trace = []  # (n_alternatives, chosen) per choice point, over all graphs of this execution
        self.tasks_run = 0
        self.graphs = 0
        self.max_ready = 0
        self.lib_tasks = 0
        self.log = []  # labels of executed branchable tasks, in order (for determinism checks / replay files)

    # -- helpers -------------------------------------------------------------------------------------------------
    def _label(self, key, graph, memo):
        if key in memo:
            return memo[key]
        memo[key] = ("cycle",)
        node = graph.get(key)
        idx = tuple(key[1:]) if isinstance(key, tuple) else ()
        try:
            name = key_split(key)
        except Exception:
            name = str(type(key))
        deps = ()
        fname = ""
        if node is not None:
            f = getattr(node, "func", None)
            fname = getattr(f, "__qualname__", getattr(f, "__name__", "")) if f is not None else type(node).__name__
            deps = tuple(sorted(self._label(d, graph, memo) for d in node.dependencies if d in graph))
        lab = (str(name), str(fname), idx, deps)
        memo[key] = lab
        return lab

    def _choose(self, n):
        i = len(self.trace)
        if i < len(self.prefix):
            c = self.prefix[i]
            if not (0 <= c < n):
                raise ScheduleDivergence(f"choice {c} out of range {n} at choice point {i}")
        else:
            c = 0
        self.trace.append((n, c))
        return c

    def _run(self, node, vals):
        if self.mode == "serialised":
            node, vals = cloudpickle.loads(cloudpickle.dumps((node, vals)))
            out = node(vals)
            return cloudpickle.loads(cloudpickle.dumps(out))
        return node(vals)

    # -- the scheduler ---------------------------------------------------------------------------------------------
    def get(self, dsk, keys, **kwargs):
        if not isinstance(dsk, Mapping):
            dsk = dsk.__dask_graph__()
        graph = convert_legacy_graph(dict(dsk))
        self.graphs += 1
        results = {}
        memo = {}
        waiting = {}
        for k, node in graph.items():
            waiting[k] = {d for d in node.dependencies}
        missing = {d for ds in waiting.values() for d in ds if d not in graph}
        if missing:
            raise RuntimeError(f"graph has dangling dependencies: {list(missing)[:3]}")
        done = set()
        pending = set(graph)
        while pending:
            ready = [k for k in pending if waiting[k] <= done]
            if not ready:
                raise RuntimeError("deadlock: no ready task")
            # resolve code-free nodes and (unless branching on everything) infrastructure tasks eagerly, canonical order
            eager = [k for k in ready if not isinstance(graph[k], Task) or not (self.branch_all or _is_library(graph[k]))]
            if eager:
                eager.sort(key=lambda k: (self._label(k, graph, memo), _tiebreak(k)))
                k = eager[0]
            else:
                ready.sort(key=lambda k: (self._label(k, graph, memo), _tiebreak(k)))
                self.max_ready = max(self.max_ready, len(ready))
                k = ready[self._choose(len(ready))] if len(ready) > 1 else ready[0]
                self.log.append(repr(self._label(k, graph, memo)[:3]))
            node = graph[k]
            vals = {d: results[d] for d in node.dependencies}
            if isinstance(node, (DataNode, Alias)):
                results[k] = node(vals)
            else:
                results[k] = self._run(node, vals)
                self.tasks_run += 1
                if _is_library(node):
                    self.lib_tasks += 1
            done.add(k)
            pending.discard(k)

        def pack(k):
            if isinstance(k, list):
                return [pack(x) for x in k]
            return results[k]

        return pack(keys)


def run_with(fn, prefix=(), mode="shared", branch_all=False):
    """Execute fn() under a fresh controller; returns (outcome, controller)."""
    ctl = Controller(prefix, mode, branch_all)
    with dask.config.set(scheduler=ctl.get):
        out = fn()
    if len(ctl.trace) < len(ctl.prefix):
        raise ScheduleDivergence(f"replay prefix has {len(ctl.prefix)} choices, execution only {len(ctl.trace)} choice points")
    return out, ctl


def explore(fn, mode="shared", bound=None, branch_all=False, max_execs=None):
    """Stateless DFS over choice sequences with prefix replay. bound = maximal number of deviations (choices != 0),
    None = all schedules. Yields (prefix, outcome, controller). Sets explore.capped if max_execs stopped the search."""
    stack = [[]]
    n = 0
    capped = False
    while stack:
        if max_execs is not None and n >= max_execs:
            capped = True
            break
        prefix = stack.pop()
        out, ctl = run_with(fn, prefix, mode, branch_all)
        n += 1
        yield prefix, out, ctl
        tr = ctl.trace
        for i in range(len(tr) - 1, len(prefix) - 1, -1):
            devs = sum(1 for (_, ch) in tr[:i] if ch != 0)
            if bound is not None and devs + 1 > bound:
                continue
            for alt in range(tr[i][0] - 1, 0, -1):
                stack.append([ch for _, ch in tr[:i]] + [alt])
    explore.capped = capped


explore.capped = False
